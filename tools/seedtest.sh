#!/bin/bash
# Runs checks (quick tier unless TIER is set) against a seeded change in a scratch worktree, without
# touching /repo:  tools/seedtest.sh <patch file> <name> <check id>...
# Prints one line per check: <name> <id> exit=<code> and the VIOLATION lines.
PATCH="$1"; NAME="$2"; shift 2
WT=/tmp/wt/mut-$NAME
OUT=/tmp/seedtest/$NAME
rm -rf "$OUT"; mkdir -p "$OUT"
git -C /repo worktree remove --force "$WT" >/dev/null 2>&1
git -C /repo worktree add -f "$WT" HEAD >/dev/null 2>&1 || { echo "$NAME worktree failed"; exit 2; }
cp /repo/Cargo.lock "$WT/" 2>/dev/null
if ! git -C "$WT" apply "$PATCH" 2>"$OUT/apply.err"; then
  if ! git -C "$WT" apply --3way "$PATCH" 2>>"$OUT/apply.err"; then echo "$NAME APPLY-FAILED"; git -C /repo worktree remove --force "$WT"; exit 2; fi
fi
for id in "$@"; do
  VERIF_REPO_OVERRIDE="$WT" VERIF_SCRATCH_OUT="$OUT" VERIF_SCRATCH_BUILD="${SCRATCH_BUILD:-/tmp/seedtest/_build}" /verif/vcheck "$id" --tier "${TIER:-quick}" >"$OUT/$id.log" 2>&1
  code=$?
  echo "$NAME $id exit=$code $(grep -c '^VIOLATION' "$OUT/$id.log") violation line(s)"
  grep -A2 '^VIOLATION' "$OUT/$id.log" | grep -E 'class:|what:' | cut -c1-260 | head -6
  [ $code -ge 2 ] && tail -5 "$OUT/$id.log" | cut -c1-300
done
git -C /repo worktree remove --force "$WT" >/dev/null 2>&1
rm -rf "$WT"
