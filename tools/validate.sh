#!/bin/sh
# Validates MANIFEST.json and every evidence file against the published schemas.
exec python3-vt - <<'PY'
import json, glob, sys, jsonschema
ok = True
try:
    jsonschema.validate(json.load(open('/verif/MANIFEST.json')), json.load(open('/root/.vp/MANIFEST.schema.json')))
    print('MANIFEST.json ok')
except Exception as e:
    ok = False; print('MANIFEST.json INVALID', e)
sch = json.load(open('/root/.vp/EVIDENCE.schema.json'))
for f in sorted(glob.glob('/verif/evidence/*.json')):
    try:
        jsonschema.validate(json.load(open(f)), sch); print(f, 'ok')
    except Exception as e:
        ok = False; print(f, 'INVALID', str(e)[:300])
sys.exit(0 if ok else 1)
PY
