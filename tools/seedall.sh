#!/bin/bash
# Re-runs, for every kept seeded change, the first check its meta.json names as catching it (quick tier,
# scratch worktree, /repo untouched) and prints one line per change. Development aid; writes
# /tmp/seedtest/all.log.   tools/seedall.sh [name-prefix]
cd /verif
LOG=/tmp/seedtest/all.log; mkdir -p /tmp/seedtest; : > "$LOG"
for d in seeded/${1:-}*/; do
  n=$(basename "$d")
  [ -f "$d/meta.json" ] || { echo "$n no-meta" | tee -a "$LOG"; continue; }
  id=$(python3 -c "import json,re,sys; m=json.load(open('$d/meta.json')); r=re.findall(r'C\d\d', m.get('caught_by','')); print(r[0] if r else m['breaks_property'])")
  out=$(tools/seedtest.sh "/verif/$d/patch.diff" "$n" "$id" 2>&1 | head -3 | tr '\n' ' ' | cut -c1-300)
  echo "$out" | tee -a "$LOG"
done
echo ALLDONE >> "$LOG"
