#!/usr/bin/env python3
"""Brief for a bug-hunting sub-agent: property texts only (nothing about the checks).
Usage: huntprompt.py <worktree> <outdir> <id>..."""
import json, sys
wt, out, ids = sys.argv[1], sys.argv[2], sys.argv[3:]
props = {json.loads(l)["id"]: json.loads(l) for l in open("/verif/properties.jsonl")}
print(f"""You are working on a scratch git worktree of the Rust crate `flacenc` (yotarok/flacenc-rs, a pure-Rust FLAC encoder library) located at {wt}. Work ONLY inside {wt} and {out}. Never read, write or run anything under /repo or /verif. There is no network; use `cargo ... --offline` (a Cargo.lock is already in the worktree; set CARGO_TARGET_DIR={wt}/target). Do NOT modify the library sources.

The library is supposed to satisfy the semantic properties listed below. Your job is to find GENUINE DEFECTS: concrete inputs, configurations, argument values, call sequences, sink/source fault positions or thread schedules for which the UNMODIFIED library violates one of the properties. Many defects have already been found and repaired on this tree (look at `git log` for commits starting with "fix:" to see what has already been dealt with - do not re-report those), so you need to dig into less obvious corners: boundary values of every numeric field, interactions between two configuration fields, unusual-but-valid inputs (extreme widths, channel counts, block sizes, lengths, rates), public constructors/setters combined in unusual orders, sequences of calls on one thread, arithmetic overflow in the dev profile (overflow checks and debug assertions are on in `cargo test`), the experimental parser/decoder on malformed input, serde paths, feature combinations.

For every defect you find, write a self-contained Rust integration test file (public API only; existing dev-dependencies such as claxon/rstest/rand/toml may be used; features `decode`/`par`/`serde` may be assumed: `cargo test --offline --features decode --test <name>`) that FAILS on the unmodified tree exactly because the property is violated, and explain which property, which clause, and why it is within the property's stated domain (quantifier). Verify by running it. Do not report behaviours that are outside the stated domain or merely surprising. Quality over quantity: 0-5 well-argued findings.

Deliverables in {out}: one `<n>_demo.rs` per finding plus `REPORT.md` (per finding: property id, the failing input, expected vs. observed, the command you ran and its output, the source location you believe is at fault and a suggested minimal repair). Leave the worktree clean afterwards (remove added test files). Finish with a 5-15 line summary.

Properties:
""")
for i in ids:
    p = props[i]
    print(f"[{i}] {p['title']}\n  Statement: {p['statement']}\n  Domain: {p['quantifier']['text']}\n")
