#!/usr/bin/env python3
"""Prints the brief given to an independent sub-agent that authors a property-breaking change.
Usage: seedprompt.py <property id> <worktree dir> <out dir>
The brief contains only the property text and the scratch locations (nothing from /verif)."""
import json
import sys

pid, wt, out = sys.argv[1], sys.argv[2], sys.argv[3]
props = {json.loads(l)["id"]: json.loads(l) for l in open("/verif/properties.jsonl")}
p = props[pid]
print(f"""You are working on a scratch git worktree of the Rust crate `flacenc` (yotarok/flacenc-rs, a pure-Rust FLAC encoder library) located at {wt}. Work ONLY inside {wt} and {out}. Never read, write or run anything under /repo or /verif (they are off limits for this task). There is no network; use `cargo ... --offline` (a Cargo.lock is already in the worktree; set CARGO_TARGET_DIR={wt}/target).

The library is supposed to satisfy this semantic property:

  {p['title']}
  {p['statement']}

Your job: author TWO independent, realistic source changes to the library (each a separate patch against the worktree's HEAD, not stacked) that BREAK this property while
  (a) the crate still compiles (`cargo build --offline --all-features` is not required; the default feature set plus `--features decode` must compile), and
  (b) the crate's whole existing test suite still passes unchanged: `cargo test --workspace --no-fail-fast --offline` (163 tests; run it with each change applied to be sure; do not edit, delete or ignore tests).
The changes should look like plausible maintenance mistakes (a refactor gone slightly wrong, an off-by-one, a cache key that is too coarse, a buffer hoisted to shared scope, an ordering change between two statements, a missing reset, a boundary condition, two cooperating sites that each look fine alone ...), NOT sabotage that ordinary use would expose at once. Prefer changes that need something specific to manifest: a particular input shape or value range, an unusual but valid configuration, a particular thread interleaving, a fault at a particular point, or a multi-step sequence of calls. Each change should be small (a few lines). Do not touch `src/verif_sync.rs` or anything guarded by `cfg(flacenc_verif)`; do not change tests.

For each change also write a DEMONSTRATION: a self-contained Rust integration test file (to be dropped into `{wt}/tests/`, using only the crate's public API and its existing dev-dependencies such as claxon/rstest/rand/toml, features `decode`/`par`/`serde` may be assumed via `cargo test --offline --features decode --test <name>`) that FAILS with the change applied and PASSES on the unmodified HEAD. Verify both facts yourself by running it. If the breakage is schedule dependent, make the demonstration force the schedule as well as you can (sleeps, slow sources, many repetitions) and say how reliable it is.

Deliverables, written to {out}:
  {out}/1/patch.diff   (output of `git diff` for change 1 only, applicable with `git apply` on HEAD)
  {out}/1/demo.rs      (the demonstration test file)
  {out}/1/notes.md     (what the change is, why the property breaks, what it needs in order to manifest, exact commands you ran and their outcomes: suite passes with the change; demo fails with the change; demo passes without it)
  {out}/2/...          (same for change 2)
Leave the worktree clean (git checkout -- . ; remove added test files) when you are done, but keep {out}. Finish with a short report (5-10 lines) naming the two changes.""")
