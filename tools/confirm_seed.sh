#!/bin/bash
# Confirms one seeded change in a scratch worktree (outside /repo and /verif) and stores it under
# /verif/seeded/<name>/: patch.diff, demo.rs, notes.md, confirm.log.
#   tools/confirm_seed.sh <source dir with patch.diff+demo.rs> <name, e.g. C06-1>
# Confirms: the patch applies to /repo HEAD, the crate builds, the pinned suite passes with the
# change, the demonstration fails with the change and passes without it.
set -u
SRC="$1"; NAME="$2"
WT=/tmp/wt/confirm-$NAME
OUT=/verif/seeded/$NAME
export CARGO_NET_OFFLINE=true
mkdir -p "$OUT"
cp "$SRC/patch.diff" "$OUT/patch.diff"
cp "$SRC/demo.rs" "$OUT/demo.rs"
[ -f "$SRC/notes.md" ] && cp "$SRC/notes.md" "$OUT/notes.md"
LOG="$OUT/confirm.log"; : > "$LOG"
git -C /repo worktree remove --force "$WT" >/dev/null 2>&1
git -C /repo worktree add -f "$WT" HEAD >>"$LOG" 2>&1 || { echo "worktree failed" | tee -a "$LOG"; exit 2; }
cp /repo/Cargo.lock "$WT/" 2>/dev/null
cd "$WT" || exit 2
export CARGO_TARGET_DIR="$WT/target"
res() { echo "$1" | tee -a "$LOG"; }
if git apply --check "$OUT/patch.diff" 2>>"$LOG"; then res "APPLY=ok"; git apply "$OUT/patch.diff" 2>>"$LOG";
elif git apply --3way "$OUT/patch.diff" >>"$LOG" 2>&1; then res "APPLY=ok (3-way: HEAD moved since the change was authored)"; git diff HEAD > "$OUT/patch.diff"; git reset -q; else res "APPLY=fail"; fi
if cargo test --workspace --no-fail-fast --offline --lib >"$WT/suite.log" 2>&1; then res "SUITE_WITH_CHANGE=pass $(grep -E '^test result' "$WT/suite.log" | head -1)"; else res "SUITE_WITH_CHANGE=FAIL $(grep -E '^test result' "$WT/suite.log" | head -1)"; fi
mkdir -p tests; cp "$OUT/demo.rs" tests/seed_demo.rs
if timeout 900 cargo test --offline --release --features decode --test seed_demo >"$WT/demo_with.log" 2>&1; then res "DEMO_WITH_CHANGE=pass (unexpected)"; else res "DEMO_WITH_CHANGE=fail (expected) $(grep -E '^test result' "$WT/demo_with.log" | head -1)"; fi
git apply -R "$OUT/patch.diff" 2>>"$LOG"
if timeout 900 cargo test --offline --release --features decode --test seed_demo >"$WT/demo_without.log" 2>&1; then res "DEMO_WITHOUT_CHANGE=pass (expected) $(grep -E '^test result' "$WT/demo_without.log" | head -1)"; else res "DEMO_WITHOUT_CHANGE=FAIL $(grep -E '^test result|error' "$WT/demo_without.log" | head -3)"; fi
cd /
git -C /repo worktree remove --force "$WT" >>"$LOG" 2>&1
rm -rf "$WT"
echo "done $NAME" | tee -a "$LOG"
