#!/usr/bin/env python3
"""Prints a markdown table of what the evidence files in /verif/evidence (or a given directory) report."""
import glob, json, os, sys
d = sys.argv[1] if len(sys.argv) > 1 else "/verif/evidence"
print("| id | tier | wall s | cases / schedules | distinct non-trivial | model states | transitions | traces validated | exhaustive | caps |")
print("|---|---|---|---|---|---|---|---|---|---|")
for f in sorted(glob.glob(os.path.join(d, "C*.json"))):
    e = json.load(open(f)); c = e["coverage"]
    print(f"| {e['property_id']} | {e['tier']} | {e['wall_s']:.0f} | {c.get('evaluations', '')} | {c.get('distinct_nontrivial', '')} | {c.get('states', '')} | {c.get('transitions', '')} | {c.get('traces_validated_against_impl', '')} | {c.get('exhaustive', '')} | {len(c.get('caps_hit') or [])} |")
