#!/usr/bin/env python3
"""Regenerates /verif/MANIFEST.json from the table below (keeps the manifest valid at all times)."""
import json
import os

ROOT = os.path.dirname(os.path.dirname(os.path.abspath(__file__)))

# id -> (level, technique, level text, level note, design section)
CHECKS = {
    "C01": ("exploration",
            "exhaustive deviation-bounded enumeration of inputs x configurations (U_2/U_3 + dense groups), two independent reference decoders",
            "Every case of the declared finite universe is encoded three ways (ST, MT, frame-level) and decoded by claxon and by an RFC 9639 reference decoder; exhaustive within the stated deviation bound, not sampled.",
            "Trusts claxon 0.4.3 and the harness's own reference decoder (cross-checked against each other on every case); inputs limited to the atoms/coordinates of DESIGN 2.3.",
            "DESIGN.md 3 C01"),
    "C02": ("exploration",
            "exhaustive enumeration: U_2/U_3 + header-class group GH validated by an RFC 9639 reference validator, plus three complete code spaces (every final-frame length 1..=32767, every sample rate 1..=96000, frame numbers: boundary windows / all of 0..2^31)",
            "Every stream of the declared universe and every point of three complete header code spaces passes a validator that enforces each clause of the statement; exhaustive within the stated bounds.",
            "Trusts the harness's own RFC 9639 validator (cross-checked against claxon in C01); stream-level inputs limited to the atoms/coordinates of DESIGN 2.3.",
            "DESIGN.md 3 C02"),
    "C03": ("exploration",
            "exhaustive dense product width x channels x sign-heavy atoms x lengths x block sizes x 6 deliveries (MemSource, integer / byte source without hint, hints rounded up / down to whole blocks, an empty fill before every block) x {ST, frame-level, MT 1..3 workers}; STREAMINFO compared with the harness's own LE serialisation hashed with an independent MD5; every stream serialised through three sinks (byte sink, word sink, minimal user sink) after a refused write of another stream at operation 0..13",
            "Every case of a dense product over the dimensions the MD5/count path depends on, each through six deliveries and five encoding modes; STREAMINFO must state the source format, the delivered count and the reference MD5, identically in all of them.",
            "MD5 from the md-5 crate over the harness's serialisation; the schedule quantifier for the hashing thread is covered by the loom harness of C05.",
            "DESIGN.md 3 C03"),
    "C05": ("model_checking",
            "stateless model checking of the real par.rs under loom (DPOR, preemption bound 2/3, every scenario in its own process) + explicit-state exploration of a protocol model with stateright, bound to the code by replaying every loom execution's event log through the model (scenarios incl. short reads in the middle of the input, empty fills, shrunk hashing queue with integer and byte delivery; thorough: preemption bounds 4 and 5 for one worker and two blocks); breadth over inputs with real threads (U_1/U_2, long streams, the empty input and one-block inputs through six deliveries, environment overrides)",
            "Every interleaving (up to the preemption bound) of the feeding, encoding and hashing threads of the real implementation is executed for a grid of worker counts, environment overrides, frame counts and deliveries, and its bytes compared with the single-thread stream and the frame-level assembly; a protocol model explored exhaustively extends the schedule quantifier to more workers/frames, and is validated against the implementation trace by trace.",
            "loom models std::sync/std::thread; the bounded-channel stand-in models crossbeam-channel; loom limited to 3 workers; the crate's thread-local scratch is loom::thread_local storage in the loom build (per modelled thread, hook 82b277e), call-history dependence across calls is C10's subject; the real-thread breadth part samples one OS schedule per encode and is supplementary.",
            "DESIGN.md 3 C05"),
    "C06": ("model_checking",
            "stateless model checking of the real par.rs under loom with scripted source faults (read error at every position, out-of-range sample in every block, pairs; also after a short last block and after a short read in the middle of the input) + explicit-state exploration of the protocol model under the same fault scripts (stateright), traces replayed through the model; real-thread part: sources that never end (the call must return within a watchdog) and extreme worker counts, each probe in a child process (a dead or silent child is the observation)",
            "For every fault script and every interleaving up to the preemption bound the call must return the single-thread error kind, with no panic in any thread, no thread alive at return and no deadlock; the model adds deadlock freedom and termination for more workers/frames with unbounded preemptions.",
            "Same trusted base as C05; faults limited to the two kinds the statement names; a loom deadlock report aborts the child process and is classified from its panic journal.",
            "DESIGN.md 3 C06"),
    "C07": ("exploration",
            "exhaustive enumeration of all single- and two-field deviations of the configuration from three valid base points over boundary/extreme value grids; reference predicate written from the documented ranges; accepted configurations run on a probe corpus; the default configuration at every block size up to 1100 and around every block-size code class (thorough: every block size 32..=32767)",
            "into_verified().is_ok() is compared with a documented-range predicate for ~10^4 configurations (every 1- and 2-field deviation), and every accepted in-range configuration must encode 7-8 probe inputs without panic and losslessly (two decoders).",
            "Ranges taken from the statement and the doc comments; probe inputs are the six universe base inputs plus two shapes; built without the experimental feature (thorough: also with it); worker counts {None,1,2,3,300,2^32+1,usize::MAX}, the ones above 1024 probed in a child process because an allocation failure aborts.",
            "DESIGN.md 3 C07"),
    "C10": ("exploration",
            "exhaustive enumeration of all call sequences of length <= 3 over an alphabet of 49 calls (thorough: also length 4 over a reduced alphabet), each sequence on one fresh thread; call-by-call bytes compared with the same call alone on a fresh thread; every unordered pair of calls made concurrently on two fresh threads",
            "Every sequence over the call alphabet up to the stated depth is executed on a newly spawned thread and each call must reproduce the bytes of the same call made alone on a fresh thread; the alphabet is chosen from the thread-local scratch buffers and caches visible in the code.",
            "History effects that need a call outside the alphabet, or more than 3 (4) calls, are out of reach; the concurrent pairs observe one OS schedule each (no shared mutable globals exist in the crate).",
            "DESIGN.md 3 C10"),
    "C11": ("exploration",
            "exhaustive enumeration of sink operation sequences (user-sink comparisons preceded by a refused write): every start offset 0..=63 x every op x every op (depth 2; depth 3 on a reduced alphabet) over ~2.4k ops incl. every width n in 0..=BITS, against an ideal MSB-first bit string; user-defined minimal sink vs ByteSink over a corpus",
            "Both in-memory sinks are compared with an ideal bit string after every step of every operation sequence up to depth 2 (3) from every bit offset, and a sink implementing only the required methods must receive the same bits as ByteSink for every component of a corpus.",
            "Operand values limited to 3 (quick) / 7 (thorough) patterns per type; the model is the harness's own bit string.",
            "DESIGN.md 3 C11"),
    "C12": ("fault_enumeration",
            "fault enumeration: a user sink failing on its k-th operation for EVERY k, four sink flavours (permanent / transient, all methods / required methods only), over streams / frames / headers / subframes / residuals (one and several Rice partitions) / metadata, incl. a 24 KiB frame",
            "For every target and flavour the number of sink operations N of a full write is measured and the write is repeated with the sink failing at operation k for every k < N: the result must be Err(OutputError::Sink), without panic, and the accepted bits a prefix of the reference bit string.",
            "Targets limited to nine streams and their components (+ the single-coordinate deviations of the base points with small blocks).",
            "DESIGN.md 3 C12"),
    "C14": ("exploration",
            "exhaustive enumeration of channels 1..=8 x width/bytes-per-sample x capacity x every fill length 0..=capacity (after a full fill) x value patterns; int path vs byte path compared at buffer, context, frame and stream level; plus every fill sequence of length <= 3 (thorough 4) on the (FrameBuf, Context) pair over 7 block lengths x every assignment of the two deliveries to the steps x at most one FrameBuf::resize, judged step by step against a reference model",
            "Every fill length for every channel count and bytes-per-sample is delivered both as integers and as packed bytes; frame buffer contents, context digest/count/frame number, the verbatim-coded frame and whole streams (ST, MT, frame-level; long streams also with 16 / 64 workers on real threads) must be identical, and equal to the input.",
            "FrameBuf contents are read through its Debug rendering (the only public view); 4 capacities; 3 value patterns.",
            "DESIGN.md 3 C14"),
    "C16": ("fault_enumeration",
            "fault enumeration: every non-zero XOR mask on every frame byte, every burst of width 2..=8 at every bit offset, truncation after every byte, every value of 1 (and 2) bytes at grammar cut points, checksum-consistent substitutions of header/body bytes, the complete code space of header bytes 2-3 x first number bytes with the CRC-8 forged at every admissible header length, every 3-byte input (2^24) to parser::subframe for the block sizes x widths the stream parser can pass, every STREAMINFO width code x channel code with the frame headers deferring to STREAMINFO (checksums recomputed), over a corpus of small emitted streams; plus a fixed list of pseudo-random inputs",
            "Every alteration of at most 8 contiguous bits inside a frame of each corpus stream is parsed: the parser must not panic and must either reject the stream or return identical audio; truncations, substitutions and a fixed list of arbitrary inputs must not panic.",
            "Corpus of 12 (quick) / 20 (thorough) streams of 100-700 bytes; allocation failure and hangs are watched by the runner's watchdog.",
            "DESIGN.md 3 C16"),
    "C17": ("exploration",
            "exhaustive enumeration of every public entry point of the encoding API x every argument over a boundary / wrap-around grid (others valid), incl. out-of-width samples at each block position, StreamInfo values no constructor returns (deserialised) at the frame-level entry point, byte fills with every bytes-per-sample against every declared width (and with values no format has: 0, 5.., wrap-around values) and fills of every length around the capacity; domain predicate from the statement",
            "Every argument class the statement lists as outside the supported domain must give Err (not Ok, not a panic, not a hang) on every entry point, single- and multi-thread; plainly valid arguments must give Ok; unclassified arguments are executed and recorded but not judged.",
            "Domain predicate written from the statement; every width other than 8/12/16/20/24 counts as unsupported; block sizes also reach the frame-level entry point through FrameBuf::resize; rate 0, fills that are not a multiple of the channel count and StreamInfo/FrameBuf channel disagreement are recorded only.",
            "DESIGN.md 3 C17"),
    "C18": ("exploration",
            "exhaustive enumeration of every public component constructor over grids of boundary / inconsistent arguments (all combinations of at most two deviating arguments); post-conditions verify / write x3 / count_bits / parse-back identity; sequences of constructed frames (every ordered pair of channel assignments) through one parser value and through parser::stream",
            "Each constructor call must return Err, or a component that verifies, serialises into three sinks to exactly count_bits() bits and parses back to a component that re-serialises and renders identically; no panic in constructor, verify, count, write or parser.",
            "Setters that return no Result (set_total_samples) are outside the statement and not probed beyond their field width; StreamInfo::new / Stream::new are probed both as returned and after their setters.",
            "DESIGN.md 3 C18"),
    "C19": ("exploration",
            "exhaustive enumeration: TOML round trip over every 1- and 2-field deviation of the configuration; documents written by the harness with every subset (thorough: all 2^19) of the 19 leaf keys omitted, compared with a documented-defaults table; the document written from the Verified wrapper parses to the same value and no rejected document becomes a Verified<Encoder> (from_str and toml::Value::try_into)",
            "Round trip equality, default substitution for exactly the omitted leaves and agreement of verify() with the documented ranges are checked for ~9k values and for every omission subset of the 19 leaf keys (quick: subsets of size <= 3 or co-size <= 2).",
            "Values TOML cannot carry (NaN, integers >= 2^63) excluded; documents in which an enum's tag is omitted omit the whole enum (partitions / alpha can be omitted while the tag is present); defaults table written from the doc comments (multithread default true: built with feature par).",
            "DESIGN.md 3 C19"),
    "C08": ("exploration",
            "exhaustive enumeration of every component of every stream of U_2/U_3 + G9 (encoder- and parser-produced, before/after precompute) and of constructor grids incl. the 2^32 quotient-sum switch and entries in warm-up positions, and of every subframe parser::subframe accepts out of every 3-byte input (2^24) x 3 tails; count_bits compared with three sinks",
            "count_bits() is compared with the bits received by MemSink<u8>, MemSink<u64> and a counting sink for every component reachable through public accessors, and for public constructors over grids that straddle every counting shortcut in the code.",
            "Residuals above 2^29 bits are written into the counting sink only.",
            "DESIGN.md 3 C08"),
    "C15": ("exploration",
            "exhaustive enumeration of every stream/frame/subframe of U_2/U_3 + GH/GS through the crate's parser: consumed length, verify, byte-identical re-serialisation, decode == input (each serialisation follows refused header / frame writes on the same thread); constructed frames over every header code class",
            "Every stream, frame and subframe the library serialises in the declared universe is parsed back, verified, re-serialised and decoded; plus frames built with public constructors over every block-size / sample-rate / channel-assignment class and frame-number length.",
            "Inputs limited to the declared universe; decode compared with the harness's own input blocks.",
            "DESIGN.md 3 C15"),
    "C04": ("exploration",
            "exhaustive enumeration of every input length (0..=3*bs for small block sizes, every residue for large ones) x content x width x mode x every class of header rate code x six deliveries; STREAMINFO bounds compared with frames parsed by a reference decoder",
            "Complete over input length for the listed block sizes: every stream is parsed by the RFC 9639 reference parser and by claxon; bounds must be valid (>=16, <= non-final frames, == requested max) and frame-size fields exact.",
            "Content limited to three atoms x two channel counts x three widths; default configuration (the universe checks C01/C02 cover configurations).",
            "DESIGN.md 3 C04"),
    "C09": ("exploration",
            "exhaustive enumeration of the dense group G9 (width x loud atoms x Rice cap 0..=14 x order selection x predictor switches x channel setups x block sizes) plus U_2/U_3; frame byte spans from a reference parser compared with the verbatim bound",
            "Every frame of every case is measured by an independent parser and compared with the size of the verbatim encoding plus the statement's slack of two bytes per channel.",
            "Signals limited to the atom alphabet (loud/heavy-tailed atoms emphasised); sizes of streams above 64 MiB come from count_bits (C08 establishes its exactness).",
            "DESIGN.md 3 C09"),
    "C13": ("exploration",
            "exhaustive enumeration of emitted residuals (U_2/U_3 + G9) and of a direct grid on the Rice search seam, each compared with a brute-force optimum over the encoder's search space",
            "For every fixed/LPC subframe emitted in the universe the coded residual size equals the brute-force minimum over admissible partition orders x parameters 0..=cap (judged below 2^28 bits).",
            "Brute force shares no code with the subject (u64 arithmetic, no saturation); residual alphabet limited to what the atoms produce plus the seam grid.",
            "DESIGN.md 3 C13"),
    "C20": ("exploration",
            "exhaustive enumeration of cargo feature sets (quick: the 4 sets of the project's CI; thorough: all 32 subsets of par/serde/log/decode/experimental) x a fixed corpus of inputs and non-experimental configurations; digests of the emitted bytes compared",
            "A probe binary is compiled once per feature set and encodes the same corpus (multithread defaulted, false and true); frame count, length and digest of every emitted stream must agree across all sets.",
            "Corpus of 69 (input, configuration) cases; feature sets that do not build are reported as caps; simd-nightly and mimalloc are not built.",
            "DESIGN.md 3 C20"),
}

PENDING_REASON = "check not built yet in this session (work in progress; will be claimed once its engine lands)"

ALL = [f"C{i:02d}" for i in range(1, 21)]


def main():
    checks = []
    for pid in ALL:
        if pid not in CHECKS:
            continue
        level, technique, text, note, ref = CHECKS[pid]
        checks.append({
            "property_id": pid,
            "quick_cmd": f"./vcheck {pid} --tier quick",
            "thorough_cmd": f"./vcheck {pid} --tier thorough",
            "evidence_file": f"/verif/evidence/{pid}.json",
            "replay_cmd_template": f"./vcheck {pid} --replay {{path}}",
            "engine": "parx" if pid in ("C05", "C06") else ("featx" if pid == "C20" else "seqx"),
            "level_claimed": {"category": level, "text": text, "design_ref": ref},
            "level_note": note,
            "technique": technique,
        })
    manifest = {
        "version": 1,
        "setup_cmd": "./vcheck build",
        "hooks": {
            "guard": "--cfg flacenc_verif (plus --cfg flacenc_verif_loom for the loom build)",
            "enable": "RUSTFLAGS=\"--cfg flacenc_verif --cfg flacenc_verif_loom -C target-cpu=native\" cargo build (done by ./vcheck for the parx engine)",
            "baseline_off_cmd": "cd /repo && cargo nextest run --workspace --no-fail-fast --offline || cargo test --workspace --no-fail-fast --offline",
            "source_commits": ["e691247", "f65cc55", "daeba2a", "82b277e"],
            "add_only": True,
        },
        "engines": [
            {"name": "seqx", "path": "/verif/engines/seqx", "serves_properties": [p for p in ALL if p not in ("C05", "C06", "C20")],
             "kind_free_text": "Rust; exhaustive enumeration of declared finite input/configuration/operation/fault spaces against reference models (own RFC 9639 decoder, ideal bit string, brute-force Rice optimum, documented-range table)"},
            {"name": "parx", "path": "/verif/engines/parx", "serves_properties": ["C05", "C06", "C03"],
             "kind_free_text": "Rust; loom (DPOR, preemption-bounded) over the real par.rs + stateright explicit-state protocol model bound to the code by trace replay"},
            {"name": "featx", "path": "/verif/engines/featx", "serves_properties": ["C20"],
             "kind_free_text": "Rust probe compiled once per cargo feature set; digests compared"},
        ],
        "checks": checks,
        "not_applicable": [{"property_id": p, "reason": PENDING_REASON} for p in ALL if p not in CHECKS],
        "notes": "See DESIGN.md. Known findings: /verif/known_findings.txt. Exit 2 from a check means a machinery failure, never a verdict.",
    }
    with open(os.path.join(ROOT, "MANIFEST.json"), "w") as f:
        json.dump(manifest, f, indent=1)
        f.write("\n")


if __name__ == "__main__":
    main()
