#!/bin/bash
# Confirms and tests the two changes a seed sub-agent left in /tmp/seedout/<id>/{1,2}:
#   tools/seedbatch.sh C01d C04d ...      (development aid; prints one block per change)
cd /verif
for id in "$@"; do
  prop=${id:0:3}
  git -C /repo worktree remove --force /tmp/wt/$id >/dev/null 2>&1; rm -rf /tmp/wt/$id
  for k in 1 2; do
    [ -f /tmp/seedout/$id/$k/patch.diff ] || { echo "$id-$k: no patch"; continue; }
    echo "== $id-$k: $(tools/confirm_seed.sh /tmp/seedout/$id/$k $id-$k 2>&1 | grep -E 'APPLY|SUITE|DEMO' | sed 's/test result.*//' | tr '\n' ' ')"
    tools/seedtest.sh /verif/seeded/$id-$k/patch.diff $id-$k $prop 2>&1 | cut -c1-220 | head -5
  done
done
