#!/usr/bin/env python3
"""Writes /verif/seeded/<name>/meta.json for every confirmed seeded change and prints the markdown
table used in DESIGN.md section 5. The rows below are maintained by hand from the sub-agents' notes,
tools/confirm_seed.sh logs (confirm.log in each directory) and tools/seedtest.sh runs."""
import json
import os

ROOT = os.path.dirname(os.path.dirname(os.path.abspath(__file__)))

# name: (property, change, what it needs in order to manifest, caught by (check: class), remarks)
ROWS = {
    "C01-1": ("C01", "coding.rs estimated_qlpc: residual warm-up taken from the configured lpc_order instead of the quantised order",
              "trailing LPC coefficients that quantise to zero (coarse quant_precision or sparse signals)",
              "C01 quick: claxon_reject / strict_reject; C02 quick: malformed|frame.crc16; C15 quick: frame_parse_error", ""),
    "C01-2": ("C01", "par.rs worker: buffer handed back to the refill queue before it is locked and encoded",
              "an interleaving in which the feeder refills the buffer before the worker locks it",
              "C05 quick: loom caller_panic / bytes_differ (every run, DPOR); seqx breadth mt_vs_st|frames; C01 quick: samples_differ (MT mode)", "the model reports the trace as non-conforming (shape of the protocol changed)"),
    "C02-1": ("C02", "same mechanism as C01-1 (authored independently)", "quant_precision 4..6 with lpc_order >= 12", "C02 quick: malformed|frame.crc16; C01 quick", ""),
    "C02-2": ("C02", "constant.rs rice::MIN_PARTITION_SIZE 64 -> 16",
              "LPC order 16..24 with block size order*2^k and residual statistics changing every `order` samples",
              "C13 quick: order_outside_search_space (needed the atoms gated16/gated24 and LPC order 16, added after the first miss)",
              "C02 (first-partition rule) does not fire on the universe: the finest partition has to win for an order >= 16 subframe; reported by C13 only"),
    "C03-1": ("C03", "arrayutils.rs i32s_to_le_bytes: 1-byte samples converted with the 2-byte routine", "multi-thread mode, integer delivery, 8-bit samples",
              "C03 quick: md5 / delivery_or_mode_dependence; C14 quick: stream_differs|streaminfo", ""),
    "C03-2": ("C03", "par.rs ParContext::enqueue_buffer hashes the block on the feeder thread when the 16-slot queue is full",
              "more than 17 blocks and the hashing thread 16 blocks behind",
              "C03 quick (long streams, workers 16/64, added after the first miss): md5; C05 quick breadth part: mt_vs_st|streaminfo; C05 thorough loom scenario pb1_cfg_w1_f17",
              "real-thread detection depends on the OS schedule (observed in every run here); the loom scenario decides it in the thorough tier"),
    "C04-1": ("C04", "bitrepr.rs utf8like_bytesize rewritten with ilog2, one byte short for 2048..4095, 65536..",
              "a stream whose extreme frame has a frame number in one of those ranges (>= 2049 frames)",
              "C04 quick (streams of 2049 / 4100 frames, added after reading the change): max_frame_size; C08 quick: count_mismatch|ctor:frame_header", ""),
    "C04-2": ("C04", "par.rs final STREAMINFO block sizes taken from config.block_size instead of the argument",
              "multi-thread mode with a block-size argument different from config.block_size",
              "C04 quick (config/argument mismatch coordinate, added after the first miss): max_block_size", ""),
    "C05-1": ("C05", "lpc.rs WindowKey keyed by ceil(size/16)", "a last block within 15 samples of the block size; a thread that encoded the other length first",
              "C05 quick breadth part: mt_vs_st|frames (conclusive, history dependent); C10 quick; since hook 82b277e also C05 layer 1 (loom): bytes_differ in cfg_w2_f2_bytes", "was invisible to loom while its coroutines shared the thread-local scratch"),
    "C05-2": ("C05", "same mechanism as C03-2 (authored independently)", "as C03-2", "C05 quick breadth part: mt_vs_st|streaminfo", ""),
    "C06-1": ("C06", "par.rs worker leaves its loop after the first failed frame", "as many invalid blocks as workers, followed by more blocks",
              "C06 quick: loom deadlock (scenario w1_f3_badsample@0)", "loom aborts the child on a deadlock; the verdict is read from the panic journal"),
    "C06-2": ("C06", "par.rs hashing thread stopped/joined only after the frame-error return", "an invalid block and a source that does not fill on its end-of-input read",
              "C06 quick: thread_leak", ""),
    "C07-1": ("C07", "config.rs Window::verify rewritten with two comparisons: NaN alpha accepted", "alpha = NaN",
              "C07 quick: accepts_out_of_range|qlpc.window.alpha", ""),
    "C07-2": ("C07", "same mechanism as C01-1 (authored independently)", "quant_precision 1..6 with lpc_order >= 8", "C07 quick: accepted_config_undecodable; C01 quick", ""),
    "C08-1": ("C08", "bitrepr.rs utf8like_bytesize table: 27..=32 -> 6 bytes", "frame / sample numbers in 2^31..2^32-1 (constructor or parser only)",
              "C08 quick: count_mismatch|ctor:frame_header", ""),
    "C08-2": ("C08", "bitrepr.rs FrameHeader::write clears the thread-local scratch buffer after the write instead of before",
              "a header write that fails (range error or failing sink) followed by another header/frame write on the same thread",
              "C08 quick (every fifth header first written into a refusing sink): count_mismatch; C10 quick: history_dependent|..|after|failing_header_write; C12 quick: accepted_bits_not_prefix",
              "the full seed regression of the third session showed C08 and C10 no longer reporting it: their failed writes had come from values the constructors refuse since fix 59451e6; both now use a refusing sink"),
    "C09-1": ("C09", "coding.rs LPC candidate screened on residual bits only", "almost incompressible blocks", "C09 quick: frame_larger_than_verbatim", ""),
    "C09-2": ("C09", "coding.rs stereo decision starts from the whole-frame bit count", "stereo blocks where L, R, M are verbatim and S slightly larger", "C09 quick: frame_larger_than_verbatim", ""),
    "C10-1": ("C10", "same mechanism as C05-1 (authored independently)", "as C05-1", "C10 quick: history_dependent (adjacent block lengths 191/192, 255/256); C05 quick breadth part", ""),
    "C10-2": ("C10", "bitrepr.rs Frame::write and FrameHeader::write clear their scratch sinks at the end", "a failed write followed by another write on the same thread",
              "C10 quick: history_dependent|...|after|failing_header_write; C12 quick; C08 quick", "re-based on the current HEAD with a 3-way apply"),
    "C11-1": ("C11", "bitsink.rs MemSink<u64>::write_zeros appends one word too many when the run ends on a word boundary", "a zero run of >= 64 bits ending on a 64-bit boundary",
              "C11 quick: MemSink<u64>|tail|...+write_zeros", ""),
    "C11-2": ("C11", "bitsink.rs default BitSink::write_zeros drops a final full word", "a user sink relying on the default and a run of exactly 64*k zeros",
              "C11 quick: user_sink_differs|subframe", ""),
    "C12-1": ("C12", "repeat.rs try_repeat_while checks the result once per unrolled group and returns Ok at a partial group", "a sink failure in the last 1..3 samples of a Rice partition",
              "C12 quick: error_swallowed|residual, |subframe", ""),
    "C12-2": ("C12", "same mechanism as C08-2 (authored independently)", "as C08-2", "C12 quick: accepted_bits_not_prefix|frame_header (conclusive); C10 quick", ""),
    "C13-1": ("C13", "rice.rs partition-order search stops at the first non-improving order", "cost(0) < cost(6) < cost(5): structure only visible at the finest partitions", "C13 quick: not_optimal", ""),
    "C13-2": ("C13", "rice.rs warm-up samples zero-filled and counted in the first partition", "predictor order > 0 and a short first partition", "C13 quick: not_optimal", ""),
    "C14-1": ("C14", "source.rs FrameBuf::fill_le_bytes: grow-only conversion buffer, filled size taken from it", "byte delivery with a short block after a full one",
              "C14 quick: filled_size / stream_differs; C01 quick: samples_differ", ""),
    "C14-2": ("C14", "source.rs Context::fill_interleaved: chunked MD5 update mis-sizes the remainder", "single-thread integer delivery, >= 2 bytes per sample, block not a multiple of 64 values",
              "C14 quick: context_md5; C03 quick: md5", ""),
    "C15-1": ("C15", "parser.rs residual: rejects Rice parameter 14 (>= instead of >)", "residuals around 2^15..2^17 (loud 20/24-bit input)", "C15 quick: frame_parse_error / stream_parse_error", ""),
    "C16-1": ("C16", "parser.rs stream: a trailing incomplete frame ends the stream", "an alteration that lengthens the parse of the last frame beyond the buffer", "C16 quick: altered_frame_accepted", ""),
    "C16-2": ("C16", "parser.rs block_size_code: tag 0000 parsed as Reserved, block_size() then panics", "a header with block-size bits 0000 and a valid CRC-8",
              "C16 quick (checksum-consistent substitutions, added after reading the change): panic@datatype.rs Reserved block-size tag", ""),
    "C17-1": ("C17", "source.rs fill capacity check compares len/channels with the block size", ">= 2 channels and an overrun that is not a whole inter-channel sample", "C17 quick: FrameBuf::fill|invalid_argument_accepted", ""),
    "C17-2": ("C17", "source.rs verify_samples scans samples[..filled*channels] instead of per channel", "a partially filled buffer and an out-of-width sample outside channel 0",
              "C17 quick (partial fills / later channels, added after the first miss): encode_fixed_size_frame(out-of-width sample)|invalid_argument_accepted", ""),
    "C18-1": ("C18", "same mechanism as C08-1 (authored independently)", "as C08-1", "C18 quick: FrameHeader::new|count_mismatch; C08 quick", ""),
    "C18-2": ("C18", "same mechanism as C08-2 (authored independently)", "as C08-2", "C08 / C10 / C12 quick (see C08-2)", "its first trigger (StartSample >= 2^36 accepted by the constructor) no longer exists after fix 59451e6; the failing-sink trigger remains"),
    "C19-1": ("C19", "config.rs Fixed: struct-level serde default replaced by field-level defaults (max_order -> 0)", "a [subframe_coding.fixed] table without max_order", "C19 quick: omitted_field_default", ""),
    "C19-2": ("C19", "config.rs workers field moved behind the tables", "workers = Some(n): toml refuses to serialise a value after tables", "C19 quick: serialise_error", ""),
    "C20-1": ("C20", "source.rs Context::fill_interleaved chunked MD5 drops the remainder (single-thread path only)", "a build without `par` (or multithread = false) and a block whose value count is not a multiple of 64", "C20 quick: feature_dependent; C03 quick: md5", ""),
    "C20-2": ("C20", "same mechanism as C04-2 (authored independently)", "as C04-2", "C20 quick: feature_dependent; C04 quick", ""),
    # ---- round 2 (sub-agents were told which ideas had been used already)
    "C01b-1": ("C01", "lpc.rs compute_error: the 32/64-bit accumulation switch forgets the sign bit", "inputs wider than 16 bits, same-sign coefficients, level near 2^16: accumulator in [2^31, 2^32)",
               "C01 quick: encode_fail|panic@src/lpc.rs (overflow checks are on in the engines; a release build decodes 2^17 off); in MT mode the dead worker makes the call hang or panic (class hang / Failed to wait thread termination)", "exposed the missing replay watchdog (section 8)"),
    "C01b-2": ("C01", "constant.rs qlpc::MAX_SHIFT 15 -> 31 (signed 5-bit field treated as unsigned)", "an LPC subframe whose coefficients are all <= 0.25 (noise on a DC offset)",
               "C01 quick: claxon_reject / strict_reject|sub.shift_negative; C02 quick: malformed|sub.shift_negative", ""),
    "C03b-2": ("C03", "par.rs early return for an empty source with a length hint: MD5 never set", "multi-thread mode and an empty MemSource",
               "C03 quick: md5_empty_input / delivery_or_mode_dependence", "re-based with a 3-way apply"),
    "C05b-1": ("C05", "bitrepr.rs utf8like_bytesize over-counts by one byte for 11-, 16-, 21-bit numbers", "more than 1024 frames with the extreme frame numbered 1024..2047 (single-thread sizes come from count_bits, multi-thread ones from the precomputed bytes)",
               "C04 quick (1300-frame streams, added after reading the change): max_frame_size; C08 quick (header grid at every power of two, added): count_mismatch; C05 quick breadth (1300 / 2100-frame streams, added after the first miss): mt_vs_st|streaminfo", ""),
    "C05b-2": ("C05", "lpc.rs auto-correlation accumulators never cleared (two cooperating sites)", "any second LPC analysis on a thread",
               "C10 quick: history_dependent; C05 quick breadth: frame_level_vs_st / mt_vs_st (conclusive); since hook 82b277e also the in-model reference comparison of C05 layer 1: st_vs_framewise", "was invisible to loom while its coroutines shared the thread-local scratch"),
    "C06b-1": ("C06", "par.rs: the read error is returned before the frame results are inspected", "an out-of-width block followed by a read error in one source",
               "C06 quick: result_kind_differs (scenario ..badsample@0+readerr@1)", ""),
    "C06b-2": ("C06", "par.rs ParContext::fill_le_bytes accepts containers wider than the declared width", "multi-thread mode and a byte source using more bytes per sample than declared",
               "C17 quick: encode_with_fixed_block_size(bytes-per-sample mismatch)|invalid_argument_accepted", "not a failure kind C06 names; it is C17's class and is reported there"),
    "C08b-1": ("C08", "bitrepr.rs Residual::write emits the 5-bit-parameter method for parameters above 14 while count_bits charges 4 bits", "parser-produced residuals (RICE2) only",
               "C08 quick (hand-written RICE2 residuals through parser::residual, added after reading the change): count_mismatch|parsed:residual_handwritten", ""),
    "C08b-2": ("C08", "datatype.rs SampleRateSpec::count_extra_bits: the tens-of-Hz variant falls into the wildcard arm", "rates that are a multiple of 10 Hz without a dedicated code (e.g. 65540)",
               "C08 quick: count_mismatch|ctor:frame_header and stream components", ""),
    "C09b-1": ("C09", "coding.rs verbatim baseline counted in whole bytes per sample", "12- or 20-bit incompressible blocks", "C09 quick: frame_larger_than_verbatim", ""),
    "C09b-2": ("C09", "bitrepr.rs Residual::count_bits charges the warm-up to the average Rice parameter", "a near break-even predicted subframe whose first partition is quiet",
               "C08 quick: count_mismatch|ctor:residual; C09 quick (amplitude sweep group GA and atom quiet_then_loud, added after the first miss): frame_larger_than_verbatim", ""),
    "C10b-1": ("C10", "same mechanism as C05b-2 (authored independently)", "as C05b-2", "C10 quick: history_dependent; C05 quick breadth", ""),
    "C10b-2": ("C10", "lpc.rs fill_windowed_signal drops the chunks_exact(16) remainder", "a block length that is not a multiple of 16 after a longer analysis on the same thread",
               "C10 quick: history_dependent|mono16_one_frame_of_255|after|...", ""),
    "C13b-1": ("C13", "rice.rs sign folding in the cost tables gives 2|x|+1 for negative residuals", "very small, negative-skewed residuals", "C13 quick: not_optimal", ""),
    "C13b-2": ("C13", "rice.rs padding buffer hoisted out of the chunk loop (stale tail chunk)", "a partition whose sample count is not a multiple of 16 and large residuals at the stale offsets", "C13 quick: not_optimal", ""),
    # ---- round 2, remaining properties
    "C02b-1": ("C02", "datatype.rs SampleRateSpec::from_freq: Hz code used (truncated to 16 bits) for rates above 65535", "a rate in 65536..=96000 that is not a multiple of 10 (e.g. 65536, 95999)",
               "C02 quick: malformed|frame.rate_mismatch", ""),
    "C02b-2": ("C02", "bitrepr.rs Frame::write clears its thread-local frame sink after use instead of before", "a sink fault during a frame write, then another write on the same thread",
               "C12 quick: accepted_bits_not_prefix|frame", "C02 and C10 quick do not see it (C10's failing-sink calls fail before the first frame)"),
    "C04b-1": ("C04", "coding.rs / par.rs: the final block-size fix-up is skipped for single-frame streams", "an input shorter than 16 samples", "C04 quick: min_block_size_below_16 / claxon_reject", ""),
    "C04b-2": ("C04", "same mechanism as C08b-2 (authored independently)", "single-thread mode and a rate stored in tens of Hz",
               "C04 quick (rates with extra header bytes, added after reading the change): min/max_frame_size; C08 quick", ""),
    "C11b-1": ("C11", "bitsink.rs default write_twoc narrows the value to 32 bits", "two's-complement fields wider than 32 bits", "C11 quick: write_twoc<i64> panic (overflow checks) for widths 33..=64", ""),
    "C11b-2": ("C11", "bitsink.rs MemSink<u8>::write_msbs skips the mask for whole-byte field widths", "n a multiple of 8 below the value width, non-zero bits below the field, unaligned sink", "C11 quick: MemSink<u8>|bits|write_msbs", ""),
    "C12b-1": ("C12", "bitrepr.rs Frame::write: body and CRC writes chained with Result::and (eager): the footer is written after the body was refused", "a sink that refuses one write and accepts a later one",
               "C12 quick (transient-fault flavour, added after reading the change): accepted_bits_not_prefix|frame|Transient, |BytesOnly", ""),
    "C12b-2": ("C12", "bitrepr.rs Stream::write: `if let Err(Range)` drops sink errors of the frame section", "a sink fault after the first 42 bytes", "C12 quick: error_swallowed|stream*", ""),
    "C14b-1": ("C14", "arrayutils.rs new 16-bit fast path reads the odd last sample at the sample index instead of the byte index", "2-byte samples and an odd total value count", "C14 quick: framebuf_differs / stream_differs", ""),
    "C14b-2": ("C14", "arrayutils.rs new 24-bit fast path folds the sign with > instead of >=", "a 24-bit sample at negative full scale delivered as bytes", "C14 quick: framebuf_differs / encode_fail", ""),
    "C15b-1": ("C15", "decode.rs LPC reconstruction truncates the prediction to 32 bits before the shift", "loud 24-bit LPC-coded material", "C15 quick: frame_decode_differs / stream_decode_differs", ""),
    "C15b-2": ("C15", "parser.rs frame(): the channel counter moved out of the per-frame closure", "parser::stream, two or more frames, stereo decorrelation in a later frame", "C15 quick: stream_parse_error", ""),
    "C16b-1": ("C16", "parser.rs: 0 used as the 'CRC not checked' sentinel", "an altered frame whose own CRC-16 computes to 0 (about 1 in 65536 alterations)", "C16 quick: altered_frame_accepted (25 of 5 million alterations)", ""),
    "C16b-2": ("C16", "parser.rs residual(): warm-up handling hoisted, partition_len - skip underflows", "a corrupted partition order that makes a partition shorter than the predictor order (panic only with overflow checks)",
               "C16 quick: panic@src/component/parser.rs attempt to subtract with overflow", "demonstration confirmed in the dev profile (confirm.log)"),
    "C17b-1": ("C17", "coding.rs encode_fixed_size_frame casts the frame number to u32 before the range check", "frame numbers of 2^32 or more with bit 31 clear", "C17 quick: encode_fixed_size_frame(frame number)|invalid_argument_accepted", ""),
    "C17b-2": ("C17", "par.rs worker returns its buffer only when the frame encoded successfully", "at least 2*workers blocks with an out-of-width sample",
               "C06 quick: loom deadlock (scenario ..badsample@0+badsample@1)", "C17 quick probes a single bad block and does not see it; it is C06's failure class"),
    # ---- round 3 (and second round for C07/C18/C19/C20)
    "C05c-1": ("C05", "same mechanism as C04-2 (authored independently)", "as C04-2", "C05 quick breadth: mt_vs_st|streaminfo; C04 quick", ""),
    "C05c-2": ("C05", "source.rs Context::fill_interleaved hashes a grow-only thread-local byte buffer", "single-thread / frame-level mode and a block shorter than an earlier block hashed on the same thread",
               "C03 quick: md5 (conclusive, history dependent); C05 quick: loom bytes_differ / st_vs_framewise and breadth", ""),
    "C06c-1": ("C06", "par.rs ParContext::request_stop skips the terminator when the last enqueued block was empty", "a read error at block 0 (or a source that ends without ever filling)",
               "C06 quick: loom deadlock (scenario ..readerr@0)", ""),
    "C06c-2": ("C06", "arrayutils.rs i32s_to_le_bytes asserts that every sample fits its byte container", "multi-thread mode and a sample outside the container width (32768 at 16 bits)",
               "C06 quick: caller_panic", ""),
    "C18c-1": ("C18", "verify.rs coefficient range check made symmetric (accepts +2^(precision-1))", "a coefficient exactly at the positive boundary",
               "C18 quick (boundary coefficients added to the grid after reading the change): write_panic / parse_back_not_identical", ""),
    "C18c-2": ("C18", "datatype.rs BlockSizeSpec::from_size rewritten arithmetically: 9216 and 18432 get colliding tags", "block size 9216 or 18432",
               "C18 quick (both sizes added to the grid after reading the change): FrameHeader::new|parse_back_rejected; C02 quick (complete final-frame length space): malformed|frame.crc8", ""),
    "C19c-1": ("C19", "config.rs experimental-only options skipped on serialisation in normal builds", "use_direct_mse = true or non-zero mae_optimization_steps", "C19 quick: roundtrip_differs", ""),
    "C19c-2": ("C19", "config.rs Encoder::default() resolves FLACENC_WORKERS", "the variable set to a positive integer (the engines pin it to 2)", "C19 quick: omitted_field_default / roundtrip_differs", ""),
    "C20c-1": ("C20", "bitrepr.rs utf8like_bytesize one bit short for exact powers of two", "exactly 129 or 2049 equally sized frames (single-thread sizes come from count_bits)",
               "C04 quick: max_frame_size; C08 quick: count_mismatch; C20 quick (129- / 2049-frame cases added to the probe corpus after the first miss): feature_dependent", ""),
    "C20c-2": ("C20", "par.rs feeder stops after the first block shorter than the block size", "a source that delivers in packets (short reads before the end)",
               "C05 quick breadth (packet source, added after reading the change): mt_vs_st|packet_source; C20 quick (packet source case added after the first miss): feature_dependent", ""),
    "C07c-1": ("C07", "lpc.rs quantize_parameters: trailing-zero trimming rewritten with rposition loses the floor of order 1 (all-zero coefficients give order 0)", "use_fixed=false and a silent channel with use_constant=false (e.g. the side channel of dual mono), or precision 1 on a low-level signal",
               "C07 quick: accepted_config_panic; C01 quick: encode_fail|panic@bitrepr.rs; C02 quick: encode_fail", ""),
    "C07c-2": ("C07", "coding.rs encode_subframe: 'too short for prediction' threshold MIN_BLOCK_SIZE (32) instead of MIN_BLOCK_SIZE_FOR_PREDICTION (64)", "a non-constant block of 32..=63 samples (block size 32..=63, or such a last block)",
               "C07 quick: accepted_config_panic@rice.rs; C01 quick: encode_fail|panic@rice.rs (and mt panic / hang classes)", "patch re-based onto HEAD after fix a79e2f0 touched the import block"),
    "C02d-1": ("C02", "datatype.rs BlockSizeSpec::from_size: the 576 family generalised to every 576*2^n (9216 and 18432 get tags 6/7 without the extra bytes)", "a block (or last block) of exactly 9216 or 18432 samples",
               "C02 quick (every final-frame length 1..=32767): malformed|frame.crc8 / eof", "found only because the block-length code space is enumerated completely; the universe's block sizes do not contain these values"),
    "C02d-2": ("C02", "datatype.rs Stream::add_metadata_block no longer clears the last-block flag of the previous extra block", "two or more added metadata blocks",
               "C02 quick (metadata variants): malformed|frame.sync", ""),
    "C03d-1": ("C03", "source.rs Context::fill_interleaved hashes through a 1024-byte stack buffer (one extra zero byte per full chunk for 3-byte samples)", "integer delivery, single-thread, 20/24 bits, at least 342 values per fill",
               "C03 quick: md5 / delivery_or_mode_dependence; C14 quick: context_md5", ""),
    "C03d-2": ("C03", "par.rs hashing thread takes a block of at most one sample for the stop signal", "multi-thread, mono, length = k*block_size + 1",
               "C03 quick: total_samples / md5 / delivery_or_mode_dependence", ""),
    "C05d-1": ("C05", "par.rs ParContext::enqueue_buffer hashes the block on the feeding thread when the hashing queue is full (overtaking queued blocks)", "the hashing thread lagging a full queue behind the feeder",
               "C05 quick layer 1 (loom, hashing queue shrunk to one slot): bytes_differ in cap1_cfg_w1_f3; breadth: mt_vs_st|packet_source, |empty_fills; C03 quick: md5 (16 workers)", "same idea as C03-2, authored independently although listed as used"),
    "C05d-2": ("C05", "arrayutils.rs i32s_to_le_bytes: 16-bit fast path packs pairs and forgets an odd remainder", "multi-thread, 16 bits, an odd number of interleaved values in a block",
               "C05 quick breadth: mt_vs_st|streaminfo; C03 quick: md5", ""),
    "C06d-1": ("C06", "par.rs worker keeps the buffer of a frame that failed to encode", "2*workers blocks with an out-of-width sample",
               "C06 quick: deadlock (loom scenario ..badsample@0+badsample@1)", ""),
    "C06d-2": ("C06", "par.rs feeder drains the encode queue on a read error (queued bad block dropped: Source error instead of Config)", "a bad block still queued when a later read fails",
               "C06 quick: result_kind_differs (scenario ..badsample@0+readerr@1; needs the interleaving, found by loom in every run)", ""),
    "C15d-1": ("C15", "decode.rs Frame::copy_signal RightSide arm: left = right - side", "a frame coded right/side",
               "C15 quick: frame_decode_differs / stream_decode_differs", "C01 does not see it (the library's own decoder is not C01's oracle)"),
    "C15d-2": ("C15", "parser.rs block_size_code: range 0b0010..0b0101 excludes 4608", "a frame of 4608 samples",
               "C15 quick: frame_parse_error / stream_parse_error", ""),
    "C17d-1": ("C17", "coding.rs encode_with_fixed_block_size: Stream::new moved after the FrameBuf/Context tuple (Context::new asserts the width)", "single-thread, declared width of 33 bits or more",
               "C17 quick: encode_with_fixed_block_size|bits_per_sample|panic@src/source.rs", ""),
    "C17d-2": ("C17", "par.rs feed_fixed_block_size rewritten with `?` (read error returns before the stop tokens)", "multi-thread, any read error (over-full fill, wrong bytes-per-sample)",
               "C17 quick: hang; C06 quick: deadlock (loom)", "re-introduces the defect fixed by 1e2b0e0"),
}

DROPPED = {
    "C03b-1": "par.rs ParContext kept a stale tail in its byte buffer; with fix 80e23ac (total samples = consumed count) the change makes 60 tests of the pinned suite fail, so it no longer qualifies: not kept",
    "C15-2": "parser.rs residual assumed the warm-up fits in the first partition; only reachable through constructors that fix 59451e6 now rejects, so on the current tree the property holds with the change (its demonstration fails on the current HEAD without the change): not kept",
}


def main():
    rows = []
    for name, (prop, change, needs, caught, remark) in sorted(ROWS.items()):
        d = os.path.join(ROOT, "seeded", name)
        if not os.path.isdir(d):
            continue
        log = ""
        p = os.path.join(d, "confirm.log")
        if os.path.exists(p):
            log = [l.strip() for l in open(p) if l.startswith(("APPLY", "SUITE", "DEMO"))]
        meta = {
            "name": name,
            "breaks_property": prop,
            "change": change,
            "needs_to_manifest": needs,
            "confirmed_by": "tools/confirm_seed.sh in a scratch worktree: patch applies to /repo HEAD, pinned suite (163 tests) passes with the change, demo.rs fails with the change and passes without it",
            "confirm_log": log,
            "checks_run": "tools/seedtest.sh (quick tier against a scratch worktree through cargo's paths override; /repo untouched)",
            "caught_by": caught,
            "remarks": remark,
        }
        with open(os.path.join(d, "meta.json"), "w") as f:
            json.dump(meta, f, indent=1)
            f.write("\n")
        rows.append((name, prop, change, needs, caught, remark))
    print("| seeded change | breaks | change | needs | reported by | remarks |")
    print("|---|---|---|---|---|---|")
    for r in rows:
        print("| " + " | ".join(x.replace("|", "\\|") for x in r) + " |")
    for k, v in DROPPED.items():
        print(f"\nNot kept: {k} - {v}")


if __name__ == "__main__":
    main()
