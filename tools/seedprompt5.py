#!/usr/bin/env python3
"""Round-5 brief for a seed sub-agent: seedprompt.py's text plus the list of mechanisms already used
for this property (the `change` column of tools/mkseedmeta.py only - nothing about the checks).
Usage: seedprompt5.py <property id> <worktree dir> <out dir>"""
import importlib.util, os, subprocess, sys
here = os.path.dirname(os.path.abspath(__file__))
pid, wt, out = sys.argv[1:4]
base = subprocess.run([sys.executable, os.path.join(here, "seedprompt.py"), pid, wt, out], capture_output=True, text=True).stdout
spec = importlib.util.spec_from_file_location("m", os.path.join(here, "mkseedmeta.py"))
src = open(os.path.join(here, "mkseedmeta.py")).read().split("ROWS = {", 1)[1]
# evaluate only the ROWS literal
depth, end = 1, 0
for i, ch in enumerate(src):
    if ch == "{": depth += 1
    elif ch == "}":
        depth -= 1
        if depth == 0: end = i; break
rows = eval("{" + src[:end] + "}")
used = [v[1] for k, v in sorted(rows.items()) if v[0] == pid and not v[1].startswith("same mechanism")]
print(base)
print("\nIdeas that have ALREADY been used for this property by earlier authors - do NOT repeat these mechanisms; find different ones, preferably in other functions/files and needing a different kind of trigger:")
for u in used: print("  - " + u)
print("""
Additional guidance for this round: favour changes whose trigger is narrow - e.g. only one specific value of a size/width/order/count, only a particular combination of two configuration fields, only the second or third call on a thread, only a particular position of a fault, only one interleaving of two threads, only inputs whose statistics cross some internal threshold, or two cooperating edits in different files that each look harmless. Do read the code paths that the property depends on end to end (not only the obvious file) before choosing. Both changes must be different from each other in mechanism.""")
