#!/usr/bin/env python3
"""Prints a compact summary of evidence files: tools/ev.py C03 C08 ..."""
import json, sys
for p in sys.argv[1:]:
    e = json.load(open(f'/verif/evidence/{p}.json')); c = e['coverage']
    print(p, e['tier'], f"{e['wall_s']:.1f}s", 'viol', e['violations'], 'evals', c.get('evaluations'), 'nontriv', c.get('distinct_nontrivial'), 'exh', c.get('exhaustive'), 'caps', c.get('caps_hit'))
    print('   counters', json.dumps(c.get('counters'))[:1500])
    print('   outcomes', json.dumps(c.get('outcomes'))[:800])
