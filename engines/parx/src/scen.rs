//! Scenarios for the loom harness: scripted sources, reference encodings and the per-execution
//! oracle.
use crate::model::{Outcome, Read};
use flacenc::bitsink::ByteSink;
use flacenc::component::{BitRepr, Stream};
use flacenc::config;
use flacenc::error::{EncodeError, SourceError, Verified, Verify};
use flacenc::source::{Context, Fill, FrameBuf, Source};
use serde::{Deserialize, Serialize};

#[derive(Clone, Debug, Serialize, Deserialize, PartialEq)]
pub struct Scenario {
    pub name: String,
    /// `config.workers` (0 = None: the count then comes from the environment / parallelism)
    pub workers_cfg: usize,
    /// value of FLACENC_WORKERS (None = unset)
    pub env: Option<String>,
    /// answer of the intercepted `available_parallelism`
    pub parallelism: usize,
    /// worker count the harness expects the code to use (for the protocol model)
    pub w_expected: usize,
    pub script: Vec<Read>,
    /// samples of the last data block (0 = full block)
    pub tail: usize,
    pub byte_source: bool,
    pub ch: usize,
    pub bps: usize,
    pub bs: usize,
    pub preemption_bound: usize,
    /// whether the source fills (an empty block) on its end-of-input read
    pub fill_at_end: bool,
    /// capacity used for the hashing queue instead of the code's 16 (0 = unchanged)
    #[serde(default)]
    pub process_cap: usize,
    /// the source issues an empty fill before the fill that delivers a block (a "reset" packet; a no-op
    /// for the single-thread buffer and context)
    #[serde(default)]
    pub empty_fill_first: bool,
    /// index of the data block that is `tail` samples long (None = the last one): a read shorter than the
    /// block size that is followed by more reads
    #[serde(default)]
    pub short_at: Option<usize>,
    /// `config.block_size` when it differs from the block-size argument `bs` (0 = the same): the argument
    /// decides, the configuration's value must not matter
    #[serde(default)]
    pub cfg_bs: usize,
}

impl Scenario {
    pub fn nblocks(&self) -> usize {
        self.script.iter().filter(|r| matches!(r, Read::Data { .. })).count()
    }
    /// length of data block `i` in inter-channel samples
    pub fn block_len(&self, i: usize) -> usize {
        let short = self.short_at.unwrap_or(self.nblocks().saturating_sub(1));
        if self.tail > 0 && i == short {
            self.tail
        } else {
            self.bs
        }
    }
}

fn lcg(state: &mut u64) -> u64 {
    *state = state.wrapping_mul(6364136223846793005).wrapping_add(1442695040888963407);
    *state >> 33
}

/// Block `i` of the scenario: pairwise different content and cost (loud noise, silence, ramp,
/// correlated stereo), interleaved.
pub fn block(sc: &Scenario, i: usize, valid: bool, n: usize) -> Vec<i32> {
    let max = (1i64 << (sc.bps - 1)) - 1;
    let mut st = 0x9E37_79B9u64 ^ ((i as u64) << 20) ^ sc.bps as u64;
    let mut v = Vec::with_capacity(n * sc.ch);
    for t in 0..n {
        for c in 0..sc.ch {
            let x: i64 = match (i + 2) % 4 {
                0 => (lcg(&mut st) as i64 % (2 * max + 1)) - max,
                1 => (i as i64 + 1) * if c % 2 == 0 { 1 } else { -1 },
                // resonant content (an LPC subframe wins: the encoder's window cache, LPC estimator and
                // Rice scratch all influence the bytes), a different frequency per block
                2 => (((t as f64) * (1.1 + 0.17 * i as f64) + c as f64).sin() * max as f64 * 0.6) as i64 + (lcg(&mut st) % 5) as i64 - 2,
                _ => {
                    let base = (((t as f64) * (0.8 + 0.13 * i as f64)).sin() * max as f64 * 0.4) as i64 + (lcg(&mut st) % 9) as i64 - 4;
                    if c % 2 == 0 {
                        base
                    } else {
                        base + (t as i64 % 3) - 1
                    }
                }
            };
            v.push(x.clamp(-max - 1, max) as i32);
        }
    }
    if !valid {
        // one sample outside the declared width
        let at = (n / 2) * sc.ch;
        v[at] = 1i32 << (sc.bps - 1);
    }
    v
}

pub fn bytes_per_sample(bps: usize) -> usize {
    (bps + 7) / 8
}

pub struct ScriptSource {
    pub sc: Scenario,
    pub read_no: usize,
    pub block_no: usize,
    /// inter-channel samples handed over so far
    pub delivered: usize,
}

impl ScriptSource {
    pub fn new(sc: &Scenario) -> Self {
        Self { sc: sc.clone(), read_no: 0, block_no: 0, delivered: 0 }
    }
}

impl Source for ScriptSource {
    fn channels(&self) -> usize {
        self.sc.ch
    }
    fn bits_per_sample(&self) -> usize {
        self.sc.bps
    }
    fn sample_rate(&self) -> usize {
        44100
    }
    fn read_samples<F: Fill>(&mut self, block_size: usize, dest: &mut F) -> Result<usize, SourceError> {
        let step = self.sc.script.get(self.read_no).copied().unwrap_or(Read::End);
        self.read_no += 1;
        match step {
            Read::Err => Err(SourceError::from_io_error(std::io::Error::new(std::io::ErrorKind::Other, "injected read failure"))),
            Read::End => {
                if self.sc.fill_at_end {
                    if self.sc.byte_source {
                        dest.fill_le_bytes(&[], bytes_per_sample(self.sc.bps))?;
                    } else {
                        dest.fill_interleaved(&[])?;
                    }
                }
                Ok(0)
            }
            Read::Data { valid } => {
                let _ = block_size;
                let n = self.sc.block_len(self.block_no);
                let blk = block(&self.sc, self.block_no, valid, n);
                self.block_no += 1;
                if self.sc.empty_fill_first {
                    if self.sc.byte_source {
                        dest.fill_le_bytes(&[], bytes_per_sample(self.sc.bps))?;
                    } else {
                        dest.fill_interleaved(&[])?;
                    }
                }
                if self.sc.byte_source {
                    let b = bytes_per_sample(self.sc.bps);
                    let mut bytes = Vec::with_capacity(blk.len() * b);
                    for s in &blk {
                        bytes.extend_from_slice(&s.to_le_bytes()[..b]);
                    }
                    dest.fill_le_bytes(&bytes, b)?;
                } else {
                    dest.fill_interleaved(&blk)?;
                }
                self.delivered += n;
                Ok(n)
            }
        }
    }
}

pub fn make_cfg(sc: &Scenario, multithread: bool) -> Verified<config::Encoder> {
    let mut e = config::Encoder::default();
    e.block_size = if sc.cfg_bs > 0 { sc.cfg_bs } else { sc.bs };
    e.multithread = multithread;
    e.workers = std::num::NonZeroUsize::new(sc.workers_cfg);
    // a cheap but non-trivial coding setup (fixed + low-order LPC, stereo decisions on)
    e.subframe_coding.qlpc.lpc_order = 4;
    e.into_verified().expect("scenario configuration must verify")
}

pub fn stream_bytes(s: &Stream) -> Vec<u8> {
    let mut sink = ByteSink::with_capacity(s.count_bits());
    s.write(&mut sink).expect("ByteSink cannot fail");
    sink.into_inner()
}

#[derive(Debug, Clone, PartialEq, Eq)]
pub enum RunResult {
    Ok(Vec<u8>),
    ErrSource,
    ErrConfig,
}

pub fn classify(r: Result<Stream, EncodeError>) -> RunResult {
    match r {
        Ok(s) => RunResult::Ok(stream_bytes(&s)),
        Err(EncodeError::Source(_)) => RunResult::ErrSource,
        Err(EncodeError::Config(_)) => RunResult::ErrConfig,
        Err(_) => RunResult::ErrConfig,
    }
}

pub fn outcome_of(r: &RunResult, frames: usize) -> Outcome {
    match r {
        RunResult::Ok(_) => Outcome::Ok(frames as u8),
        RunResult::ErrSource => Outcome::ErrSource,
        RunResult::ErrConfig => Outcome::ErrConfig,
    }
}

/// Single-thread reference (the subject's own sequential path; no stand-in is involved).
pub fn reference_st(sc: &Scenario) -> RunResult {
    let cfg = make_cfg(sc, false);
    classify(flacenc::encode_with_fixed_block_size(&cfg, ScriptSource::new(sc), sc.bs))
}

/// Number of (LPC, fixed) subframes in the single-thread reference (non-vacuity of the scratch usage).
pub fn predicted_subframes(sc: &Scenario) -> (usize, usize) {
    let cfg = make_cfg(sc, false);
    let mut n = (0, 0);
    if let Ok(s) = flacenc::encode_with_fixed_block_size(&cfg, ScriptSource::new(sc), sc.bs) {
        for i in 0..s.frame_count() {
            let f = s.frame(i).unwrap();
            for c in 0..f.subframe_count() {
                match f.subframe(c) {
                    Some(flacenc::component::SubFrame::Lpc(_)) => n.0 += 1,
                    Some(flacenc::component::SubFrame::FixedLpc(_)) => n.1 += 1,
                    _ => {}
                }
            }
        }
    }
    n
}

/// Frame-by-frame assembly through the public frame-level entry point (fault-free scripts only).
pub fn reference_framewise(sc: &Scenario) -> Option<Vec<u8>> {
    if sc.script.iter().any(|r| matches!(r, Read::Err | Read::Data { valid: false })) {
        return None;
    }
    let cfg = make_cfg(sc, false);
    let mut stream = Stream::new(44100, sc.ch, sc.bps).ok()?;
    let mut fb = FrameBuf::with_size(sc.ch, sc.bs).ok()?;
    let mut ctx = Context::new(sc.bps, sc.ch);
    let nb = sc.nblocks();
    for i in 0..nb {
        let n = sc.block_len(i);
        let blk = block(sc, i, true, n);
        fb.fill_interleaved(&blk).ok()?;
        ctx.fill_interleaved(&blk).ok()?;
        let f = flacenc::encode_fixed_size_frame(&cfg, &fb, ctx.current_frame_number()?, stream.stream_info()).ok()?;
        stream.add_frame(f);
    }
    stream.stream_info_mut().set_block_sizes(sc.bs, sc.bs).ok()?;
    stream.stream_info_mut().set_md5_digest(&ctx.md5_digest());
    stream.stream_info_mut().set_total_samples(ctx.total_samples());
    Some(stream_bytes(&stream))
}
