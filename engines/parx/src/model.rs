//! `ParModel` - explicit-state model of the multi-thread encoding protocol of `src/par.rs`
//! (DESIGN.md appendix B). One transition per logged synchronisation event of the stand-ins in
//! `src/verif_sync.rs`; unlogged sequential work between two events is folded into the next one.
//!
//! The same `step` function serves (a) stateright (`impl Model`), which explores every
//! interleaving, and (b) the trace validator, which replays the event log of every loom execution
//! of the *real* code through the model (conformance).
use stateright::{Model, Property};

pub const PROCESS_CAP: usize = 16;

#[derive(Clone, Copy, Debug, PartialEq, Eq, Hash, serde::Serialize, serde::Deserialize)]
pub enum Read {
    /// a block of samples; `valid = false` = holds a sample outside the declared width
    Data { valid: bool },
    /// end of input (the source performs an empty fill and returns 0)
    End,
    /// the read fails
    Err,
}

#[derive(Clone, Copy, Debug, PartialEq, Eq, Hash)]
pub enum Outcome {
    Ok(u8),
    ErrSource,
    ErrConfig,
    /// the calling thread panicked (e.g. joining a dead worker)
    Panic,
}

/// What single-thread encoding returns for the script (the reference for C06).
pub fn expected(script: &[Read]) -> Outcome {
    let mut n = 0u8;
    for r in script {
        match r {
            Read::Data { valid: true } => n += 1,
            Read::Data { valid: false } => return Outcome::ErrConfig,
            Read::End => return Outcome::Ok(n),
            Read::Err => return Outcome::ErrSource,
        }
    }
    Outcome::Ok(n)
}

#[derive(Clone, Debug, PartialEq, Eq, Hash)]
pub enum FPc {
    ChanNew(u8),
    InitSend(u8),
    Spawn(u8),
    RecvRefill,
    /// lock / unlock of the "a frame failed" mark after a buffer id was taken; the mark is read at the lock
    LockMark(u8),
    UnlockMark(u8, bool),
    Lock(u8),
    /// read + fill (emits the send on the process queue, if the source fills)
    Read(u8),
    Unlock(u8, bool),
    SendEncode(u8),
    SendStop(u8),
    CtxStop,
    JoinHasher,
    JoinWorker(u8),
    Returned(Outcome),
}

#[derive(Clone, Debug, PartialEq, Eq, Hash)]
pub enum WPc {
    NotSpawned,
    RecvEncode,
    Lock(u8),
    Unlock(u8),
    /// a worker whose frame failed sets the mark before it hands the buffer back
    LockMark(u8),
    UnlockMark(u8),
    SendRefill(u8),
    LockSink,
    UnlockSink,
    Exiting,
    Panicking,
    Done,
    Dead,
}

#[derive(Clone, Debug, PartialEq, Eq, Hash)]
pub enum HPc {
    NotSpawned,
    Recv,
    LockCtx(u8),
    UnlockCtx,
    Exiting,
    Panicking,
    Done,
    Dead,
}

#[derive(Clone, Debug, PartialEq, Eq, Hash)]
pub struct St {
    pub refill: Vec<u8>,
    /// -1 = stop token
    pub encode: Vec<i8>,
    /// 0 = empty block (stop), k+1 = k-th data block
    pub process: Vec<u8>,
    pub buf_lock: Vec<Option<u8>>,
    pub buf_no: Vec<Option<u8>>,
    /// (block index, valid)
    pub buf_content: Vec<Option<(u8, bool)>>,
    pub sink_lock: Option<u8>,
    pub ctx_lock: Option<u8>,
    pub mark_lock: Option<u8>,
    /// "a frame failed to encode"
    pub mark: bool,
    /// (frame number, block index it was encoded from, ok) in insertion order
    pub sink: Vec<(u8, u8, bool)>,
    /// per worker: the frame it holds between encode and push
    pub holding: Vec<Option<(u8, u8, bool)>>,
    pub hashed: Vec<u8>,
    pub feeder: FPc,
    pub frame_count: u8,
    pub reads: u8,
    pub feed_err: bool,
    pub workers: Vec<WPc>,
    pub hasher: HPc,
    /// a worker read a buffer whose number was not set / did not match its content
    pub stale_read: bool,
}

#[derive(Clone, Debug, PartialEq, Eq)]
pub struct Ev {
    pub thread: usize,
    pub op: &'static str,
    pub obj: usize,
    pub val: i64,
}

/// Protocol defects that can be switched on in the model (self-test of layer 2: each of them is a
/// defect the pinned commit really had, and the exploration must find it).
#[derive(Clone, Copy, Debug, PartialEq, Eq)]
pub enum Bug {
    /// the feeder returns on a read error before the stop tokens are sent and without stopping the hasher
    ReturnBeforeStop,
    /// a worker that meets an invalid frame dies without handing its buffer back
    WorkerDiesOnBadFrame,
    /// one stop token too few
    OneStopTokenShort,
}

#[derive(Clone, Debug)]
pub struct ParModel {
    pub w: usize,
    pub script: Vec<Read>,
    /// capacity of the process queue (16 in the code)
    pub process_cap: usize,
    /// whether the source performs an (empty) fill on the end-of-input read
    /// an empty block is enqueued for the hashing thread on the end-of-input read. The code did so (for
    /// sources that fill on that read) until its empty-fill repair; it no longer does, and every
    /// instance bound to the code uses `false`.
    pub fill_at_end: bool,
    /// seeded protocol defect (None = the protocol as implemented)
    pub bug: Option<Bug>,
}

pub enum StepResult {
    /// the thread cannot move now (blocked or finished)
    Disabled,
    /// moved; `Some(ev)` = the logged event of this step
    Moved(St, Option<Ev>),
}

impl ParModel {
    pub fn r(&self) -> usize {
        2 * self.w
    }
    pub fn hasher_tid(&self) -> usize {
        self.w + 1
    }
    /// mutexes are numbered in creation order: the buffers, the mark of `ParFrameBuf`, the sink, the context
    pub fn mark_mutex(&self) -> usize {
        self.r()
    }
    pub fn sink_mutex(&self) -> usize {
        self.r() + 1
    }
    pub fn ctx_mutex(&self) -> usize {
        self.r() + 2
    }
    pub fn nthreads(&self) -> usize {
        self.w + 2
    }

    pub fn init(&self) -> St {
        St {
            refill: vec![],
            encode: vec![],
            process: vec![],
            buf_lock: vec![None; self.r()],
            buf_no: vec![None; self.r()],
            buf_content: vec![None; self.r()],
            sink_lock: None,
            ctx_lock: None,
            mark_lock: None,
            mark: false,
            sink: vec![],
            holding: vec![None; self.w],
            hashed: vec![],
            feeder: FPc::ChanNew(0),
            frame_count: 0,
            reads: 0,
            feed_err: false,
            workers: vec![WPc::NotSpawned; self.w],
            hasher: HPc::NotSpawned,
            stale_read: false,
        }
    }

    fn read_at(&self, k: u8) -> Read {
        self.script.get(k as usize).copied().unwrap_or(Read::End)
    }

    /// The next step of thread `t` (0 = caller, 1..=W workers, W+1 hasher).
    pub fn step(&self, s: &St, t: usize) -> StepResult {
        let ev = |op: &'static str, obj: usize, val: i64| Some(Ev { thread: t, op, obj, val });
        let r = self.r();
        let mut n = s.clone();
        if t == 0 {
            match s.feeder.clone() {
                FPc::ChanNew(c) => {
                    let cap = if c == 2 { self.process_cap } else { r + 1 };
                    n.feeder = match c {
                        0 => FPc::InitSend(0),
                        1 => {
                            if self.w > 0 {
                                FPc::Spawn(1)
                            } else {
                                FPc::ChanNew(2)
                            }
                        }
                        _ => FPc::Spawn(self.hasher_tid() as u8),
                    };
                    StepResult::Moved(n, ev("chan_new", c as usize, cap as i64))
                }
                FPc::InitSend(i) => {
                    if (i as usize) < r {
                        n.refill.push(i);
                        n.feeder = FPc::InitSend(i + 1);
                        StepResult::Moved(n, ev("send", 0, i as i64))
                    } else {
                        n.feeder = FPc::ChanNew(1);
                        StepResult::Moved(n, None)
                    }
                }
                FPc::Spawn(i) => {
                    let i = i as usize;
                    if i <= self.w {
                        n.workers[i - 1] = WPc::RecvEncode;
                        n.feeder = if i < self.w { FPc::Spawn(i as u8 + 1) } else { FPc::ChanNew(2) };
                    } else {
                        n.hasher = HPc::Recv;
                        n.feeder = FPc::RecvRefill;
                    }
                    StepResult::Moved(n, ev("spawn", i, 0))
                }
                FPc::RecvRefill => {
                    if s.refill.is_empty() {
                        return StepResult::Disabled;
                    }
                    let b = n.refill.remove(0);
                    n.feeder = FPc::LockMark(b);
                    StepResult::Moved(n, ev("recv", 0, b as i64))
                }
                FPc::LockMark(b) => {
                    if s.mark_lock.is_some() {
                        return StepResult::Disabled;
                    }
                    n.mark_lock = Some(0);
                    n.feeder = FPc::UnlockMark(b, s.mark);
                    StepResult::Moved(n, ev("lock", self.mark_mutex(), 0))
                }
                FPc::UnlockMark(b, failed) => {
                    n.mark_lock = None;
                    n.feeder = if failed {
                        // a frame failed: stop feeding (the buffer id that was taken is dropped)
                        if self.w > 0 { FPc::SendStop(0) } else { FPc::CtxStop }
                    } else {
                        FPc::Lock(b)
                    };
                    StepResult::Moved(n, ev("unlock", self.mark_mutex(), 0))
                }
                FPc::Lock(b) => {
                    if s.buf_lock[b as usize].is_some() {
                        return StepResult::Disabled;
                    }
                    n.buf_lock[b as usize] = Some(0);
                    n.feeder = FPc::Read(b);
                    StepResult::Moved(n, ev("lock", b as usize, 0))
                }
                FPc::Read(b) => {
                    let k = s.reads;
                    match self.read_at(k) {
                        Read::Data { valid } => {
                            if s.process.len() >= self.process_cap {
                                return StepResult::Disabled;
                            }
                            n.reads += 1;
                            n.process.push(k + 1);
                            n.buf_content[b as usize] = Some((k, valid));
                            n.buf_no[b as usize] = Some(s.frame_count);
                            n.feeder = FPc::Unlock(b, true);
                            StepResult::Moved(n, ev("send", 2, 1))
                        }
                        Read::End => {
                            n.reads += 1;
                            n.feeder = FPc::Unlock(b, false);
                            if self.fill_at_end {
                                if s.process.len() >= self.process_cap {
                                    return StepResult::Disabled;
                                }
                                n.process.push(0);
                                StepResult::Moved(n, ev("send", 2, 0))
                            } else {
                                StepResult::Moved(n, None)
                            }
                        }
                        Read::Err => {
                            n.reads += 1;
                            n.feed_err = true;
                            n.feeder = FPc::Unlock(b, false);
                            StepResult::Moved(n, None)
                        }
                    }
                }
                FPc::Unlock(b, go_on) => {
                    n.buf_lock[b as usize] = None;
                    if go_on {
                        n.frame_count += 1;
                        n.feeder = FPc::SendEncode(b);
                    } else if self.bug == Some(Bug::ReturnBeforeStop) && s.feed_err {
                        n.feeder = FPc::Returned(Outcome::ErrSource);
                    } else {
                        n.feeder = if self.w > 0 { FPc::SendStop(0) } else { FPc::CtxStop };
                    }
                    StepResult::Moved(n, ev("unlock", b as usize, 0))
                }
                FPc::SendEncode(b) => {
                    if s.encode.len() >= r + 1 {
                        return StepResult::Disabled;
                    }
                    n.encode.push(b as i8);
                    n.feeder = FPc::RecvRefill;
                    StepResult::Moved(n, ev("send", 1, b as i64))
                }
                FPc::SendStop(i) => {
                    if s.encode.len() >= r + 1 {
                        return StepResult::Disabled;
                    }
                    n.encode.push(-1);
                    let last = if self.bug == Some(Bug::OneStopTokenShort) { self.w.saturating_sub(1).max(1) } else { self.w };
                    n.feeder = if (i as usize) + 1 < last { FPc::SendStop(i + 1) } else { FPc::CtxStop };
                    StepResult::Moved(n, ev("send", 1, -1))
                }
                FPc::CtxStop => {
                    if s.process.len() >= self.process_cap {
                        return StepResult::Disabled;
                    }
                    n.process.push(0);
                    n.feeder = FPc::JoinHasher;
                    StepResult::Moved(n, ev("send", 2, 0))
                }
                FPc::JoinHasher => match s.hasher {
                    HPc::Done => {
                        n.feeder = if self.w > 0 { FPc::JoinWorker(1) } else { FPc::Returned(self.finalize(s)) };
                        StepResult::Moved(n, ev("join", self.hasher_tid(), 0))
                    }
                    HPc::Dead => {
                        n.feeder = FPc::Returned(Outcome::Panic);
                        StepResult::Moved(n, ev("join", self.hasher_tid(), 1))
                    }
                    _ => StepResult::Disabled,
                },
                FPc::JoinWorker(i) => match s.workers[i as usize - 1] {
                    WPc::Done => {
                        n.feeder = if (i as usize) < self.w { FPc::JoinWorker(i + 1) } else { FPc::Returned(self.finalize(s)) };
                        StepResult::Moved(n, ev("join", i as usize, 0))
                    }
                    WPc::Dead => {
                        n.feeder = FPc::Returned(Outcome::Panic);
                        StepResult::Moved(n, ev("join", i as usize, 1))
                    }
                    _ => StepResult::Disabled,
                },
                FPc::Returned(_) => StepResult::Disabled,
            }
        } else if t <= self.w {
            let wi = t - 1;
            match s.workers[wi].clone() {
                WPc::NotSpawned | WPc::Done | WPc::Dead => StepResult::Disabled,
                WPc::RecvEncode => {
                    if s.encode.is_empty() {
                        return StepResult::Disabled;
                    }
                    let v = n.encode.remove(0);
                    n.workers[wi] = if v < 0 { WPc::Exiting } else { WPc::Lock(v as u8) };
                    StepResult::Moved(n, ev("recv", 1, v as i64))
                }
                WPc::Lock(b) => {
                    if s.buf_lock[b as usize].is_some() {
                        return StepResult::Disabled;
                    }
                    n.buf_lock[b as usize] = Some(t as u8);
                    // encode happens under the lock
                    match (s.buf_no[b as usize], s.buf_content[b as usize]) {
                        (Some(no), Some((blk, valid))) => {
                            if no != blk {
                                n.stale_read = true;
                            }
                            n.holding[wi] = Some((no, blk, valid));
                            n.workers[wi] = WPc::Unlock(b);
                            if self.bug == Some(Bug::WorkerDiesOnBadFrame) && !valid {
                                // `unreachable!()` while the guard is alive: the lock is released by unwinding
                                n.buf_lock[b as usize] = None;
                                n.holding[wi] = None;
                                n.workers[wi] = WPc::Panicking;
                            }
                        }
                        _ => {
                            // `expect(FRAMENUM_NOT_SET)` fires while the guard is alive
                            n.stale_read = true;
                            n.buf_lock[b as usize] = None;
                            n.workers[wi] = WPc::Panicking;
                        }
                    }
                    StepResult::Moved(n, ev("lock", b as usize, 0))
                }
                WPc::Unlock(b) => {
                    n.buf_lock[b as usize] = None;
                    let failed = matches!(s.holding[wi], Some((_, _, false)));
                    n.workers[wi] = if failed { WPc::LockMark(b) } else { WPc::SendRefill(b) };
                    StepResult::Moved(n, ev("unlock", b as usize, 0))
                }
                WPc::LockMark(b) => {
                    if s.mark_lock.is_some() {
                        return StepResult::Disabled;
                    }
                    n.mark_lock = Some(t as u8);
                    n.mark = true;
                    n.workers[wi] = WPc::UnlockMark(b);
                    StepResult::Moved(n, ev("lock", self.mark_mutex(), 0))
                }
                WPc::UnlockMark(b) => {
                    n.mark_lock = None;
                    n.workers[wi] = WPc::SendRefill(b);
                    StepResult::Moved(n, ev("unlock", self.mark_mutex(), 0))
                }
                WPc::SendRefill(b) => {
                    if s.refill.len() >= r + 1 {
                        return StepResult::Disabled;
                    }
                    n.refill.push(b);
                    n.workers[wi] = WPc::LockSink;
                    StepResult::Moved(n, ev("send", 0, b as i64))
                }
                WPc::LockSink => {
                    if s.sink_lock.is_some() {
                        return StepResult::Disabled;
                    }
                    n.sink_lock = Some(t as u8);
                    let h = n.holding[wi].take().expect("worker pushes without a frame");
                    n.sink.push(h);
                    n.workers[wi] = WPc::UnlockSink;
                    StepResult::Moved(n, ev("lock", self.sink_mutex(), 0))
                }
                WPc::UnlockSink => {
                    n.sink_lock = None;
                    n.workers[wi] = WPc::RecvEncode;
                    StepResult::Moved(n, ev("unlock", self.sink_mutex(), 0))
                }
                WPc::Exiting => {
                    n.workers[wi] = WPc::Done;
                    StepResult::Moved(n, ev("exit", t, 0))
                }
                WPc::Panicking => {
                    n.workers[wi] = WPc::Dead;
                    StepResult::Moved(n, ev("panic", t, 0))
                }
            }
        } else if t == self.hasher_tid() {
            match s.hasher.clone() {
                HPc::NotSpawned | HPc::Done | HPc::Dead => StepResult::Disabled,
                HPc::Recv => {
                    if s.process.is_empty() {
                        return StepResult::Disabled;
                    }
                    let v = n.process.remove(0);
                    n.hasher = if v == 0 { HPc::Exiting } else { HPc::LockCtx(v - 1) };
                    StepResult::Moved(n, ev("recv", 2, i64::from(v != 0)))
                }
                HPc::LockCtx(k) => {
                    if s.ctx_lock.is_some() {
                        return StepResult::Disabled;
                    }
                    n.ctx_lock = Some(t as u8);
                    n.hashed.push(k);
                    n.hasher = HPc::UnlockCtx;
                    StepResult::Moved(n, ev("lock", self.ctx_mutex(), 0))
                }
                HPc::UnlockCtx => {
                    n.ctx_lock = None;
                    n.hasher = HPc::Recv;
                    StepResult::Moved(n, ev("unlock", self.ctx_mutex(), 0))
                }
                HPc::Exiting => {
                    n.hasher = HPc::Done;
                    StepResult::Moved(n, ev("exit", t, 0))
                }
                HPc::Panicking => {
                    n.hasher = HPc::Dead;
                    StepResult::Moved(n, ev("panic", t, 0))
                }
            }
        } else {
            StepResult::Disabled
        }
    }

    /// Result computed by the caller after all joins (mirrors the tail of
    /// `par::encode_with_fixed_block_size`).
    fn finalize(&self, s: &St) -> Outcome {
        let mut frames: Vec<(u8, u8, bool)> = s.sink.clone();
        frames.sort();
        if frames.iter().any(|f| !f.2) {
            return Outcome::ErrConfig;
        }
        if s.feed_err {
            return Outcome::ErrSource;
        }
        Outcome::Ok(frames.len() as u8)
    }

    pub fn enabled(&self, s: &St) -> Vec<usize> {
        (0..self.nthreads()).filter(|&t| matches!(self.step(s, t), StepResult::Moved(..))).collect()
    }

    pub fn all_threads_done(&self, s: &St) -> bool {
        s.workers.iter().all(|w| matches!(w, WPc::Done | WPc::Dead)) && matches!(s.hasher, HPc::Done | HPc::Dead)
    }

    /// Safety oracle on one state; `None` = fine.
    pub fn check_state(&self, s: &St) -> Option<&'static str> {
        if s.stale_read {
            return Some("a worker read a buffer whose frame number was unset or did not match its content");
        }
        // no frame number twice in the result map
        for (i, a) in s.sink.iter().enumerate() {
            if s.sink[..i].iter().any(|b| b.0 == a.0) {
                return Some("a frame number was pushed twice into the result map");
            }
        }
        if let FPc::Returned(out) = &s.feeder {
            if !self.all_threads_done(s) {
                return Some("the call returned while a thread it started is still running");
            }
            if s.workers.iter().any(|w| *w == WPc::Dead) || s.hasher == HPc::Dead {
                return Some("a helper thread panicked");
            }
            if *out != expected(&self.script) {
                return Some("the result differs from the single-thread result for the same source");
            }
            if let Outcome::Ok(nf) = out {
                let mut frames = s.sink.clone();
                frames.sort();
                if frames.len() != *nf as usize || frames.iter().enumerate().any(|(i, f)| f.0 as usize != i || f.1 as usize != i) {
                    return Some("the result map does not hold every frame exactly once, in order, from its own block");
                }
                let want: Vec<u8> = (0..*nf).collect();
                if s.hashed != want {
                    return Some("the hashing thread did not hash every block exactly once in input order");
                }
            }
        } else if self.enabled(s).is_empty() {
            return Some("deadlock: no thread can move and the call has not returned");
        }
        None
    }
}

// -------------------------------------------------------------------------------------------------
// stateright binding

impl Model for ParModel {
    type State = St;
    type Action = usize;

    fn init_states(&self) -> Vec<St> {
        vec![self.init()]
    }

    fn actions(&self, s: &St, actions: &mut Vec<usize>) {
        actions.extend(self.enabled(s));
    }

    fn next_state(&self, s: &St, t: usize) -> Option<St> {
        match self.step(s, t) {
            StepResult::Moved(n, _) => Some(n),
            StepResult::Disabled => None,
        }
    }

    fn properties(&self) -> Vec<Property<Self>> {
        vec![
            Property::<Self>::always("safe", |m, s| m.check_state(s).is_none()),
            Property::<Self>::eventually("returns", |_, s| matches!(s.feeder, FPc::Returned(_))),
            Property::<Self>::sometimes("out-of-order completion", |_, s| s.sink.windows(2).any(|w| w[0].0 > w[1].0)),
            Property::<Self>::sometimes("feeder waits for a buffer", |_, s| s.feeder == FPc::RecvRefill && s.refill.is_empty()),
        ]
    }
}

// -------------------------------------------------------------------------------------------------
// trace validation

#[derive(Debug, Default, Clone)]
pub struct TraceFacts {
    pub out_of_order: bool,
    pub feeder_blocked_on_refill: bool,
    pub events: usize,
}

/// Replays one event log of the implementation through the model. `Err` = the model cannot take
/// the trace (conformance failure) or the trace leads the model into an unsafe state.
pub fn validate_trace(m: &ParModel, log: &[Ev]) -> Result<(St, TraceFacts), String> {
    let mut s = m.init();
    let mut facts = TraceFacts::default();
    for (i, e) in log.iter().enumerate() {
        facts.events += 1;
        if e.op == "block_recv" || e.op == "block_send" {
            // a blocking wait is not a transition; the model must agree that the thread cannot move
            if e.thread == 0 && e.op == "block_recv" && e.obj == 0 {
                facts.feeder_blocked_on_refill = true;
            }
            // internal steps first
            loop {
                match m.step(&s, e.thread) {
                    StepResult::Moved(n, None) => s = n,
                    StepResult::Moved(_, Some(ev)) => {
                        return Err(format!("event {i}: thread {} blocks ({} on channel {}) but the model lets it {:?}", e.thread, e.op, e.obj, ev));
                    }
                    StepResult::Disabled => break,
                }
            }
            continue;
        }
        loop {
            match m.step(&s, e.thread) {
                StepResult::Disabled => {
                    return Err(format!("event {i}: {:?} but thread {} is not enabled in the model (feeder {:?}, workers {:?}, hasher {:?})", e, e.thread, s.feeder, s.workers, s.hasher));
                }
                StepResult::Moved(n, None) => {
                    s = n;
                }
                StepResult::Moved(n, Some(ev)) => {
                    if ev != *e {
                        return Err(format!("event {i}: implementation did {:?}, the model expects {:?}", e, ev));
                    }
                    s = n;
                    break;
                }
            }
        }
        if let Some(why) = m.check_state(&s) {
            if !why.starts_with("deadlock") {
                return Err(format!("event {i}: model state unsafe: {why}"));
            }
        }
    }
    // trailing internal steps of the caller (finalisation)
    loop {
        match m.step(&s, 0) {
            StepResult::Moved(n, None) => s = n,
            _ => break,
        }
    }
    if s.sink.windows(2).any(|w| w[0].0 > w[1].0) {
        facts.out_of_order = true;
    }
    if !matches!(s.feeder, FPc::Returned(_)) {
        return Err(format!("trace ends but the model's caller is at {:?}", s.feeder));
    }
    Ok((s, facts))
}

/// Runs the stateright checker over one model instance. Returns (unique states, generated
/// states, max depth, discoveries as strings).
pub fn explore(m: ParModel, threads: usize) -> (usize, usize, usize, Vec<(String, String)>) {
    use stateright::Checker;
    let checker = m.checker().threads(threads).spawn_dfs().join();
    let mut disc = Vec::new();
    for (name, path) in checker.discoveries() {
        let acts: Vec<String> = path.into_actions().iter().map(|a| a.to_string()).collect();
        disc.push((name.to_string(), acts.join(",")));
    }
    (checker.unique_state_count(), checker.state_count(), checker.max_depth(), disc)
}
