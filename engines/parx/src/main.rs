//! parx - model checking of the multi-thread encoder (properties C05, C06; schedule part of C03).
//!
//! Layer 1: the real `par.rs` under loom (DPOR, preemption-bounded), one scenario per child process.
//! Layer 2: the `ParModel` protocol model under stateright (all interleavings, larger W / F).
//! Binding: every loom execution's event log is replayed through `ParModel::step`.
mod model;
mod scen;

use model::{Ev, Outcome, ParModel, Read};
use scen::{RunResult, Scenario};
use serde_json::{json, Value};
use std::collections::{BTreeMap, HashSet};
use std::panic::{catch_unwind, AssertUnwindSafe};
use std::sync::atomic::{AtomicU64, Ordering};
use std::sync::{Arc, Mutex};
use std::time::{Duration, Instant};

// -------------------------------------------------------------------------------------------------
// child: one scenario inside loom::model

#[derive(Default)]
struct ChildStats {
    schedules: u64,
    distinct: HashSet<u64>,
    out_of_order: u64,
    feeder_blocked: u64,
    validated: u64,
    conformance_failures: u64,
    first_conformance_failure: Option<String>,
    sample_traces: Vec<Value>,
    max_events: usize,
    outcomes: BTreeMap<String, u64>,
}

fn fnv_events(evs: &[Ev]) -> u64 {
    let mut h: u64 = 0xcbf29ce484222325;
    for e in evs {
        for x in [e.thread as u64, e.obj as u64, e.val as u64, e.op.len() as u64, e.op.as_bytes()[0] as u64, *e.op.as_bytes().last().unwrap() as u64] {
            h ^= x;
            h = h.wrapping_mul(0x100000001b3);
        }
    }
    h
}

fn convert_log(log: Vec<flacenc::verif_sync::Event>) -> Vec<Ev> {
    log.into_iter()
        .map(|e| {
            // payload lengths on the hashing queue are abstracted to empty / non-empty
            let val = if e.obj == 2 && (e.op == "send" || e.op == "recv") { i64::from(e.val > 0) } else { e.val };
            Ev { thread: e.thread, op: e.op, obj: e.obj, val }
        })
        .collect()
}

fn trace_json(evs: &[Ev]) -> Value {
    Value::Array(evs.iter().map(|e| json!(format!("t{} {} #{} {}", e.thread, e.op, e.obj, e.val))).collect())
}

static LAST_PANIC: Mutex<Option<String>> = Mutex::new(None);
static JOURNAL: Mutex<Option<String>> = Mutex::new(None);

fn write_result(path: &str, v: &Value) {
    std::fs::write(path, serde_json::to_string_pretty(v).unwrap()).expect("cannot write child result");
}

fn child(sc_path: &str, out_path: &str) -> i32 {
    let sc: Scenario = serde_json::from_str(&std::fs::read_to_string(sc_path).expect("scenario file")).expect("scenario json");
    match &sc.env {
        Some(v) => std::env::set_var("FLACENC_WORKERS", v),
        None => std::env::remove_var("FLACENC_WORKERS"),
    }
    flacenc::verif_sync::set_parallelism(sc.parallelism);
    if sc.process_cap > 0 {
        flacenc::verif_sync::set_capacity_override(model::PROCESS_CAP, sc.process_cap);
    }
    std::panic::set_hook(Box::new(|info| {
        let msg = if let Some(s) = info.payload().downcast_ref::<&str>() {
            (*s).to_string()
        } else if let Some(s) = info.payload().downcast_ref::<String>() {
            s.clone()
        } else {
            "<payload>".into()
        };
        let loc = info.location().map(|l| format!("{}:{}", l.file(), l.line())).unwrap_or_default();
        // journal first: a loom failure may abort the process (panic in a non-unwinding context)
        if let Some(p) = JOURNAL.lock().unwrap_or_else(|e| e.into_inner()).as_ref() {
            use std::io::Write as _;
            if let Ok(mut f) = std::fs::OpenOptions::new().create(true).append(true).open(p) {
                let _ = writeln!(f, "{loc}: {msg}");
            }
        }
        *LAST_PANIC.lock().unwrap_or_else(|e| e.into_inner()) = Some(format!("{loc}: {msg}"));
    }));
    *JOURNAL.lock().unwrap() = Some(format!("{out_path}.panics"));
    let _ = std::fs::remove_file(format!("{out_path}.panics"));
    let t0 = Instant::now();
    // references, computed once. The subject's thread-local scratch is loom storage in this build, so
    // even the sequential paths have to run inside a (single-thread, single-execution) model.
    let refs: Arc<Mutex<Option<(RunResult, Option<Vec<u8>>, (usize, usize))>>> = Arc::new(Mutex::new(None));
    {
        let (r2, sc2) = (Arc::clone(&refs), sc.clone());
        loom::model(move || {
            *r2.lock().unwrap() = Some((scen::reference_st(&sc2), scen::reference_framewise(&sc2), scen::predicted_subframes(&sc2)));
        });
    }
    let (st, fw, predicted) = refs.lock().unwrap().take().expect("reference run produced no result");
    let expected = model::expected(&sc.script);
    if scen::outcome_of(&st, sc.nblocks()) != expected {
        write_result(out_path, &json!({"scenario": sc, "verdict": "machinery", "what": format!("single-thread reference {:?} disagrees with the script's expected outcome {:?}", scen::outcome_of(&st, sc.nblocks()), expected)}));
        return 2;
    }
    if let (RunResult::Ok(b), Some(f)) = (&st, &fw) {
        if b != f {
            write_result(out_path, &json!({"scenario": sc, "verdict": "violation", "class": "st_vs_framewise", "what": "single-thread stream differs from the stream assembled frame by frame"}));
            return 3;
        }
    }
    let pm = ParModel { w: sc.w_expected, script: sc.script.clone(), process_cap: if sc.process_cap > 0 { sc.process_cap } else { model::PROCESS_CAP },
        // the multi-thread context ignores empty fills (as the single-thread context does): whether the
        // source fills on its end-of-input read (sc.fill_at_end) is invisible to the protocol
        fill_at_end: false,
        bug: None,
    };
    let stats = Arc::new(Mutex::new(ChildStats::default()));
    let first: Arc<Mutex<Option<(RunResult, Vec<Ev>)>>> = Arc::new(Mutex::new(None));
    let mut builder = loom::model::Builder::new();
    // a bound of 1000 or more stands for "no bound": every interleaving (DPOR) of the scenario
    builder.preemption_bound = if sc.preemption_bound >= 1000 { None } else { Some(sc.preemption_bound) };
    builder.max_branches = 200_000;
    builder.max_threads = 5;
    let sc2 = sc.clone();
    let out2 = out_path.to_string();
    let stats2 = Arc::clone(&stats);
    let st2 = st.clone();
    let body = move || {
        let sc = &sc2;
        flacenc::verif_sync::reset();
        let cfg = scen::make_cfg(sc, true);
        let r = catch_unwind(AssertUnwindSafe(|| flacenc::encode_with_fixed_block_size(&cfg, scen::ScriptSource::new(sc), sc.bs)));
        let live = flacenc::verif_sync::live_threads();
        let panics = flacenc::verif_sync::panics();
        let log = convert_log(flacenc::verif_sync::take_log());
        let fail = |class: &str, what: String| -> ! {
            let n = stats2.lock().unwrap().schedules + 1;
            write_result(&out2, &json!({"scenario": sc, "verdict": "violation", "class": class, "what": what, "schedule_index": n, "trace": trace_json(&log)}));
            std::process::exit(3);
        };
        let got = match r {
            Err(_) => {
                let msg = LAST_PANIC.lock().unwrap().clone().unwrap_or_default();
                fail("caller_panic", format!("the encode call panicked: {msg}"))
            }
            Ok(x) => scen::classify(x),
        };
        if !panics.is_empty() {
            fail("helper_thread_panic", format!("thread(s) started by the call panicked: {panics:?}"));
        }
        if live != 0 {
            fail("thread_leak", format!("{live} thread(s) started by the call were still running when it returned"));
        }
        if got != st2 {
            let what = match (&got, &st2) {
                (RunResult::Ok(a), RunResult::Ok(b)) => {
                    let at = a.iter().zip(b.iter()).position(|(x, y)| x != y);
                    format!("multi-thread stream ({} bytes) differs from the single-thread stream ({} bytes), first difference at byte {at:?}", a.len(), b.len())
                }
                (a, b) => format!("multi-thread result {:?} but single-thread result {:?}", scen::outcome_of(a, sc.nblocks()), scen::outcome_of(b, sc.nblocks())),
            };
            let class = if matches!((&got, &st2), (RunResult::Ok(_), RunResult::Ok(_))) { "bytes_differ" } else { "result_kind_differs" };
            fail(class, what);
        }
        // conformance: replay the event log through the protocol model
        let mut g = stats2.lock().unwrap();
        g.schedules += 1;
        g.max_events = g.max_events.max(log.len());
        *g.outcomes.entry(format!("{:?}", scen::outcome_of(&got, sc.nblocks()))).or_insert(0) += 1;
        let h = fnv_events(&log);
        let new = g.distinct.insert(h);
        match model::validate_trace(&pm, &log) {
            Ok((_, facts)) => {
                g.validated += 1;
                if facts.out_of_order {
                    g.out_of_order += 1;
                }
                if facts.feeder_blocked_on_refill {
                    g.feeder_blocked += 1;
                }
            }
            Err(e) => {
                g.conformance_failures += 1;
                if g.first_conformance_failure.is_none() {
                    g.first_conformance_failure = Some(e);
                    let t = trace_json(&log);
                    g.sample_traces.push(json!({"nonconforming_trace": t}));
                }
            }
        }
        if new && g.sample_traces.len() < 2 {
            let t = trace_json(&log);
            g.sample_traces.push(t);
        }
        drop(g);
        // repeatability: the first schedule must reproduce exactly
        let mut f = first.lock().unwrap();
        if f.is_none() {
            *f = Some((got, log));
        }
    };
    // repeat the default schedule once outside DPOR to check determinism of observations
    let res = catch_unwind(AssertUnwindSafe(|| builder.check(body)));
    let wall = t0.elapsed().as_secs_f64();
    let g = stats.lock().unwrap();
    match res {
        Ok(()) => {
            write_result(
                out_path,
                &json!({
                    "scenario": sc, "verdict": "ok", "schedules": g.schedules, "distinct_traces": g.distinct.len(),
                    "out_of_order_completions": g.out_of_order, "feeder_blocked_on_refill": g.feeder_blocked,
                    "traces_validated": g.validated, "conformance_failures": g.conformance_failures,
                    "first_conformance_failure": g.first_conformance_failure, "sample_traces": g.sample_traces,
                    "max_events": g.max_events, "outcomes": g.outcomes, "wall_s": wall,
                    "expected": format!("{expected:?}"), "lpc_subframes": predicted.0, "fixed_subframes": predicted.1,
                }),
            );
            0
        }
        Err(_) => {
            let msg = LAST_PANIC.lock().unwrap().clone().unwrap_or_default();
            let log = convert_log(flacenc::verif_sync::take_log());
            let (verdict, class) = if msg.contains("deadlock") {
                ("violation", "deadlock")
            } else if msg.contains("exceeded maximum number of branches") || msg.contains("max_branches") {
                ("cap", "loom_max_branches")
            } else if msg.contains("leaked") {
                ("violation", "arc_leak")
            } else {
                ("violation", "panic_under_loom")
            };
            write_result(
                out_path,
                &json!({"scenario": sc, "verdict": verdict, "class": class, "what": format!("loom: {msg}"), "schedule_index": g.schedules + 1, "trace": trace_json(&log), "schedules": g.schedules, "wall_s": wall}),
            );
            if verdict == "violation" {
                3
            } else {
                4
            }
        }
    }
}

// -------------------------------------------------------------------------------------------------
// parent: scenario grids, child orchestration, layer 2, report

fn data(n: usize) -> Vec<Read> {
    let mut v = vec![Read::Data { valid: true }; n];
    v.push(Read::End);
    v
}

#[allow(clippy::too_many_arguments)]
fn mk(name: &str, wcfg: usize, env: Option<&str>, wexp: usize, script: Vec<Read>, tail: usize, byte: bool, pb: usize) -> Scenario {
    let faulty = script.iter().any(|r| matches!(r, Read::Data { valid: false }));
    Scenario {
        name: name.to_string(),
        workers_cfg: wcfg,
        env: env.map(str::to_string),
        parallelism: 2,
        w_expected: wexp,
        script,
        tail,
        byte_source: byte,
        ch: 2,
        // out-of-width samples can be expressed in packed bytes only when the width is not a whole number of bytes
        bps: if byte && faulty { 12 } else { 16 },
        // 64 is the smallest block size for which the encoder uses prediction (and with it its
        // thread-local scratch: window cache, LPC estimator, Rice search buffers)
        bs: 72,
        preemption_bound: pb,
        fill_at_end: true,
        empty_fill_first: false,
        short_at: None,
        process_cap: 0,
        cfg_bs: 0,
    }
}

fn c05_scenarios(thorough: bool) -> Vec<Scenario> {
    let mut v = Vec::new();
    let pb = 2;
    // worker count from the configuration
    for w in 1..=2usize {
        for f in 0..=3usize {
            for byte in [false, true] {
                if byte && f != 2 {
                    continue;
                }
                // W=2: a last block a few samples short of the block size (72 vs 65: both long enough for
                // prediction, same 16-sample class, different length), so that per-thread scratch and caches
                // left by one frame matter to the next frame of the same worker; W=1: a much shorter one
                // (below the prediction threshold)
                let tail = if f >= 2 { if w == 2 { 65 } else { 7 } } else { 0 };
                v.push(mk(&format!("cfg_w{w}_f{f}_{}", if byte { "bytes" } else { "ints" }), w, None, w, data(f), tail, byte, pb));
            }
        }
    }
    v.push(mk("cfg_w3_f1_ints", 3, None, 3, data(1), 0, false, pb));
    // worker count from the environment override / intercepted parallelism (config.workers = None)
    for (env, wexp) in [(None, 2usize), (Some("1"), 1), (Some("2"), 2), (Some("3"), 3), (Some("0"), 2), (Some(""), 2), (Some("x"), 2)] {
        let f = if wexp == 3 { 1 } else { 2 };
        v.push(mk(&format!("env_{}_f{f}", env.map_or("unset".to_string(), |e| format!("'{e}'"))), 0, env, wexp, data(f), 5, false, pb));
    }
    // the detected parallelism (intercepted `available_parallelism`) decides when nothing else is set
    for (par, f) in [(1usize, 2usize), (3, 1)] {
        let mut s = mk(&format!("parallelism{par}_f{f}"), 0, None, par, data(f), 4, false, pb);
        s.parallelism = par;
        v.push(s);
    }
    // a source that does not fill on its end-of-input read (the hashing thread then stops only on request)
    let mut s = mk("cfg_w2_f2_nofill_at_end", 2, None, 2, data(2), 0, false, pb);
    s.fill_at_end = false;
    v.push(s);
    // a source that issues an empty fill before every block (a no-op in single-thread mode)
    for (w, f, byte) in [(1usize, 2usize, false), (2, 2, false), (2, 2, true)] {
        let mut s = mk(&format!("emptyfill_w{w}_f{f}_{}", if byte { "bytes" } else { "ints" }), w, None, w, data(f), 5, byte, pb);
        s.empty_fill_first = true;
        v.push(s);
    }
    // a read shorter than the block size in the middle of the input (a packet source): more reads follow
    for (w, f, at, len) in [(1usize, 3usize, 1usize, 9usize), (2, 3, 0, 65), (2, 3, 1, 9)] {
        let mut s = mk(&format!("shortread@{at}_len{len}_w{w}_f{f}"), w, None, w, data(f), len, false, pb);
        s.short_at = Some(at);
        v.push(s);
    }
    // hashing queue shrunk to one / two slots (the code's 16 is a tuning constant): the feeder blocks on it
    let caps: &[(usize, usize, usize)] = if thorough { &[(1, 3, 1), (2, 1, 1), (2, 2, 1), (2, 3, 2), (1, 4, 2)] } else { &[(1, 3, 1), (2, 1, 1)] };
    for &(w, f, cap) in caps {
        let mut s = mk(&format!("cap{cap}_cfg_w{w}_f{f}"), w, None, w, data(f), 6, false, pb);
        s.process_cap = cap;
        v.push(s);
    }
    // config.block_size below / above the block-size argument: the argument decides in both modes
    for (w, f, cfg_bs) in [(1usize, 2usize, 64usize), (2, 2, 4096)] {
        let mut s = mk(&format!("cfgbs{cfg_bs}_cfg_w{w}_f{f}"), w, None, w, data(f), 6, false, pb);
        s.cfg_bs = cfg_bs;
        v.push(s);
    }
    // the same with byte delivery (the feeder's byte path has a queue hand-over of its own)
    let caps_bytes: &[(usize, usize, usize)] = if thorough { &[(1, 3, 1), (2, 2, 1), (1, 4, 2)] } else { &[(1, 3, 1)] };
    for &(w, f, cap) in caps_bytes {
        let mut s = mk(&format!("cap{cap}_cfg_w{w}_f{f}_bytes"), w, None, w, data(f), 6, true, pb);
        s.process_cap = cap;
        v.push(s);
    }
    if thorough {
        // no preemption bound at all: every interleaving (DPOR) of feeder, one worker and the hashing thread
        v.push(mk("unbounded_cfg_w1_f0", 1, None, 1, data(0), 0, false, 1000));
        v.push(mk("unbounded_cfg_w1_f1", 1, None, 1, data(1), 0, false, 1000));
    }
    if thorough {
        for w in 1..=2usize {
            for f in 1..=3usize {
                v.push(mk(&format!("pb3_cfg_w{w}_f{f}"), w, None, w, data(f), 3, false, 3));
            }
        }
        // deeper bounds for the smallest configuration with two frames in flight (measured: 1.2e5 executions
        // at bound 4, 8.5e5 at bound 5)
        v.push(mk("pb4_cfg_w1_f2", 1, None, 1, data(2), 7, false, 4));
        v.push(mk("pb5_cfg_w1_f2", 1, None, 1, data(2), 7, false, 5));
        v.push(mk("cfg_w2_f4_ints", 2, None, 2, data(4), 9, false, 2));
        v.push(mk("cfg_w1_f4_ints", 1, None, 1, data(4), 9, false, 3));
        v.push(mk("cfg_w3_f2_ints", 3, None, 3, data(2), 0, false, 2));
        v.push(mk("cfg_w3_f3_ints", 3, None, 3, data(3), 0, false, 2));
        v.push(mk("cfg_w3_f3_bytes", 3, None, 3, data(3), 4, true, 2));
        // more blocks than the 16-slot hashing queue holds: the queue can fill and the feeder block on it
        v.push(mk("pb1_cfg_w1_f17_ints", 1, None, 1, data(17), 0, false, 1));
        v.push(mk("pb1_cfg_w1_f18_bytes", 1, None, 1, data(18), 3, true, 1));
        let mut s = mk("pb3_cfg_w2_f2_nofill_at_end", 2, None, 2, data(2), 0, false, 3);
        s.fill_at_end = false;
        v.push(s);
    }
    v
}

fn fault_scripts(f: usize) -> Vec<(String, Vec<Read>)> {
    let mut v = Vec::new();
    let ok = Read::Data { valid: true };
    let bad = Read::Data { valid: false };
    // read error at every position 0..=f
    for k in 0..=f {
        let mut s = vec![ok; k];
        s.push(Read::Err);
        v.push((format!("readerr@{k}"), s));
    }
    // bad sample in every block j
    for j in 0..f {
        let mut s = vec![ok; f];
        s[j] = bad;
        s.push(Read::End);
        v.push((format!("badsample@{j}"), s));
    }
    // pairs: bad sample at j, read error at k > j; two bad blocks
    for j in 0..f {
        for k in j + 1..=f {
            let mut s = vec![ok; k];
            s[j] = bad;
            s.push(Read::Err);
            v.push((format!("badsample@{j}+readerr@{k}"), s));
        }
        for j2 in j + 1..f {
            let mut s = vec![ok; f];
            s[j] = bad;
            s[j2] = bad;
            s.push(Read::End);
            v.push((format!("badsample@{j}+badsample@{j2}"), s));
        }
    }
    v
}

fn c06_scenarios(thorough: bool) -> Vec<Scenario> {
    let mut v = Vec::new();
    let maxf = if thorough { 4 } else { 3 };
    for w in 1..=2usize {
        for f in 1..=maxf {
            if !thorough && w == 2 && f == 3 {
                // quick: pairs at F=3 only for one worker
                for (name, script) in fault_scripts(f).into_iter().filter(|(n, _)| !n.contains('+')) {
                    v.push(mk(&format!("w{w}_f{f}_{name}"), w, None, w, script, 0, false, 2));
                }
                continue;
            }
            for (name, script) in fault_scripts(f) {
                v.push(mk(&format!("w{w}_f{f}_{name}"), w, None, w, script, 0, false, 2));
            }
        }
    }
    // byte delivery, environment-chosen worker counts, three workers
    for (name, script) in fault_scripts(2) {
        v.push(mk(&format!("bytes_w2_f2_{name}"), 2, None, 2, script.clone(), 0, true, 2));
        v.push(mk(&format!("env1_f2_{name}"), 0, Some("1"), 1, script.clone(), 0, false, 2));
        v.push(mk(&format!("env0_f2_{name}"), 0, Some("0"), 2, script.clone(), 0, false, 2));
        if thorough {
            v.push(mk(&format!("w3_f2_{name}"), 3, None, 3, script, 0, false, 2));
        }
    }
    for (name, script) in fault_scripts(1) {
        v.push(mk(&format!("w3_f1_{name}"), 3, None, 3, script, 0, false, 2));
    }
    // the last data block before the fault (or before the end) is shorter than the block size: a short
    // read does not end the input, the read after it may still fail
    for (name, script) in fault_scripts(2) {
        v.push(mk(&format!("tail9_w1_f2_{name}"), 1, None, 1, script.clone(), 9, false, 2));
        if thorough || !name.contains('+') {
            v.push(mk(&format!("tail65_w2_f2_{name}"), 2, None, 2, script, 65, false, 2));
        }
    }
    for (name, script) in fault_scripts(1) {
        v.push(mk(&format!("tail9_w2_f1_{name}"), 2, None, 2, script, 9, false, 2));
    }
    // the hashing queue shrunk to one / two slots (the code's 16 is a tuning constant): the hashing thread
    // is a full queue behind at every step, also when the stop signal arrives
    // (two workers and two frames take 36 s at one slot: thorough tier)
    let caps: &[(usize, usize, usize)] = if thorough { &[(1, 1, 2), (1, 1, 3), (2, 1, 3), (1, 2, 1), (1, 2, 2)] } else { &[(1, 1, 2), (1, 1, 3), (2, 1, 3), (1, 2, 1)] };
    for &(cap, w, f) in caps {
        let mut sc = mk(&format!("cap{cap}_w{w}_f{f}_faultfree"), w, None, w, data(f), 0, false, 2);
        sc.process_cap = cap;
        v.push(sc);
    }
    for (name, script) in fault_scripts(2).into_iter().filter(|(n, _)| !n.contains('+')) {
        let mut sc = mk(&format!("cap1_w1_f2_{name}"), 1, None, 1, script, 0, false, 2);
        sc.process_cap = 1;
        v.push(sc);
    }
    // config.block_size below / above the block-size argument: faults are reported as in single-thread mode,
    // and a fault-free source is not refused
    for (cfg_bs, w) in [(64usize, 1usize), (4096, 2)] {
        let mut s = mk(&format!("cfgbs{cfg_bs}_w{w}_f2_faultfree"), w, None, w, data(2), 0, false, 2);
        s.cfg_bs = cfg_bs;
        v.push(s);
        for (name, script) in fault_scripts(2).into_iter().filter(|(n, _)| !n.contains('+') && (thorough || w == 1 || n == "badsample@0")) {
            let mut s = mk(&format!("cfgbs{cfg_bs}_w{w}_f2_{name}"), w, None, w, script, 0, false, 2);
            s.cfg_bs = cfg_bs;
            v.push(s);
        }
    }
    // fault-free scripts: termination with every frame exactly once
    for w in 1..=2usize {
        for f in 0..=3usize {
            v.push(mk(&format!("w{w}_f{f}_faultfree"), w, None, w, data(f), 0, false, 2));
        }
    }
    // a short read in the middle of the input, then a fault
    for (name, script) in fault_scripts(3).into_iter().filter(|(n, _)| n == "readerr@2" || n == "readerr@3" || n == "badsample@2" || n == "badsample@0+readerr@2") {
        let mut s = mk(&format!("shortread@1_w2_f3_{name}"), 2, None, 2, script, 9, false, 2);
        s.short_at = Some(1);
        v.push(s);
    }
    // a source that issues an empty fill before every block: terminates with every frame, and the
    // faults are reported as in single-thread mode
    for (w, f) in [(1usize, 3usize), (2, 2)] {
        let mut s = mk(&format!("emptyfill_w{w}_f{f}_faultfree"), w, None, w, data(f), 0, false, 2);
        s.empty_fill_first = true;
        v.push(s);
    }
    for (name, script) in fault_scripts(2).into_iter().filter(|(n, _)| !n.contains('+')) {
        let mut s = mk(&format!("emptyfill_w2_f2_{name}"), 2, None, 2, script, 0, false, 2);
        s.empty_fill_first = true;
        v.push(s);
    }
    // sources that do not fill at end of input
    for (name, script) in fault_scripts(2) {
        let mut s = mk(&format!("nofill_w2_f2_{name}"), 2, None, 2, script, 0, false, 2);
        s.fill_at_end = false;
        v.push(s);
    }
    if thorough {
        // no preemption bound at all, one worker, one block: every interleaving of every fault script
        for (name, script) in fault_scripts(1) {
            v.push(mk(&format!("unbounded_w1_f1_{name}"), 1, None, 1, script, 0, false, 1000));
        }
    }
    if thorough {
        // bound 4 for one worker and two blocks, every fault script
        for (name, script) in fault_scripts(2) {
            v.push(mk(&format!("pb4_w1_f2_{name}"), 1, None, 1, script, 0, false, 4));
        }
        for w in 1..=2usize {
            for f in 1..=3usize {
                for (name, script) in fault_scripts(f) {
                    v.push(mk(&format!("pb3_w{w}_f{f}_{name}"), w, None, w, script, 0, false, 3));
                }
            }
        }
    }
    v
}

struct ChildOut {
    sc: Scenario,
    code: i32,
    result: Value,
    stderr_tail: String,
}

fn run_children(scs: Vec<Scenario>, dir: &str, timeout: Duration) -> Vec<ChildOut> {
    std::fs::create_dir_all(dir).unwrap();
    let exe = std::env::current_exe().unwrap();
    let n = scs.len();
    let next = AtomicU64::new(0);
    let out: Mutex<Vec<ChildOut>> = Mutex::new(Vec::new());
    let par = std::thread::available_parallelism().map(|n| n.get()).unwrap_or(4).min(n.max(1));
    std::thread::scope(|s| {
        for _ in 0..par {
            s.spawn(|| loop {
                let i = next.fetch_add(1, Ordering::SeqCst) as usize;
                if i >= n {
                    break;
                }
                let sc = &scs[i];
                let scp = format!("{dir}/{}.scenario.json", sc.name);
                let outp = format!("{dir}/{}.result.json", sc.name);
                let _ = std::fs::remove_file(&outp);
                std::fs::write(&scp, serde_json::to_string_pretty(sc).unwrap()).unwrap();
                let mut ch = std::process::Command::new(&exe)
                    .args(["child", &scp, &outp])
                    .stdout(std::process::Stdio::null())
                    .stderr(std::process::Stdio::piped())
                    .spawn()
                    .expect("cannot start child");
                let t0 = Instant::now();
                let code = loop {
                    match ch.try_wait().unwrap() {
                        Some(st) => break st.code().unwrap_or(-1),
                        None => {
                            if t0.elapsed() > timeout {
                                let _ = ch.kill();
                                let _ = ch.wait();
                                break -9;
                            }
                            std::thread::sleep(Duration::from_millis(20));
                        }
                    }
                };
                let mut stderr_tail = String::new();
                if let Some(mut e) = ch.stderr.take() {
                    use std::io::Read as _;
                    let mut buf = String::new();
                    let _ = e.read_to_string(&mut buf);
                    stderr_tail = buf.chars().rev().take(400).collect::<String>().chars().rev().collect();
                }
                let result = std::fs::read_to_string(&outp).ok().and_then(|s| serde_json::from_str(&s).ok()).unwrap_or(Value::Null);
                out.lock().unwrap().push(ChildOut { sc: sc.clone(), code, result, stderr_tail });
            });
        }
    });
    let mut v = out.into_inner().unwrap();
    v.sort_by(|a, b| a.sc.name.cmp(&b.sc.name));
    v
}

fn journal_says_deadlock(dir: &str, name: &str) -> Option<String> {
    let j = std::fs::read_to_string(format!("{dir}/{name}.result.json.panics")).ok()?;
    j.lines().find(|l| l.contains("deadlock")).map(|l| l.chars().take(300).collect())
}

/// Layer 2 instances for a property.
fn model_instances(prop: &str, thorough: bool) -> Vec<(String, ParModel)> {
    let mut v = Vec::new();
    let (maxw, maxf) = if thorough { (4usize, 6usize) } else { (3usize, 3usize) };
    if prop == "C05" {
        for w in 1..=maxw {
            for f in 0..=maxf {
                // W=4 beyond 4 frames exceeds 10^9 states (the space grows about sevenfold per frame)
                if w == 4 && f > 4 {
                    continue;
                }
                v.push((format!("W{w}_F{f}"), ParModel { w, script: data(f), process_cap: model::PROCESS_CAP, fill_at_end: false, bug: None }));
            }
        }
        // a small hashing queue makes the feeder block on it (the code's capacity is 16)
        for cap in [1usize, 2] {
            v.push((format!("W2_F4_cap{cap}"), ParModel { w: 2, script: data(4), process_cap: cap, fill_at_end: false, bug: None }));
        }
    } else {
        for w in 1..=maxw {
            let fs: Vec<usize> = if w >= 3 { vec![2, 3.min(maxf)] } else { (1..=maxf.min(if thorough { 5 } else { 4 })).collect() };
            for f in fs {
                for (name, script) in fault_scripts(f) {
                    v.push((format!("W{w}_F{f}_{name}"), ParModel { w, script, process_cap: model::PROCESS_CAP, fill_at_end: false, bug: None }));
                }
            }
        }
    }
    v
}

fn run_parent(prop: &str, tier: &str, seed: u64, report: Option<String>, replay: Option<String>) -> i32 {
    let t0 = Instant::now();
    let thorough = tier == "thorough";
    let scratch = format!("{}/parx-{}-{}", std::env::var("PARX_SCRATCH").unwrap_or_else(|_| "/verif/.build/parx-run".into()), prop, std::process::id());
    let mut scs = match prop {
        "C05" => c05_scenarios(thorough),
        "C06" => c06_scenarios(thorough),
        _ => return 2,
    };
    if let Some(p) = &replay {
        let v: Value = serde_json::from_str(&std::fs::read_to_string(p).expect("replay file")).expect("replay json");
        let c = v.get("case").cloned().unwrap_or(v);
        let sc: Scenario = serde_json::from_value(c.get("scenario").cloned().unwrap_or(c)).expect("replay file holds no scenario");
        scs = vec![sc];
    }
    // seed only rotates the order in which scenarios are started
    let rot = (seed as usize) % scs.len().max(1);
    scs.rotate_left(rot);
    let per_child = Duration::from_secs(if thorough { 3600 } else { 240 });
    let outs = run_children(scs, &scratch, per_child);

    let mut violations: BTreeMap<String, (String, Value, u64, u64)> = BTreeMap::new();
    let mut machinery: Vec<String> = Vec::new();
    let mut caps: Vec<String> = Vec::new();
    let (mut schedules, mut distinct, mut ooo, mut blocked, mut validated, mut conf_fail) = (0u64, 0u64, 0u64, 0u64, 0u64, 0u64);
    let mut per_scenario = serde_json::Map::new();
    let mut samples: Vec<Value> = Vec::new();
    let mut outcomes: BTreeMap<String, u64> = BTreeMap::new();
    let mut nontrivial = 0u64;
    let mut first_conf: Option<String> = None;
    for o in &outs {
        let verdict = o.result.get("verdict").and_then(Value::as_str).unwrap_or("");
        match (o.code, verdict) {
            (0, "ok") => {
                let g = |k: &str| o.result.get(k).and_then(Value::as_u64).unwrap_or(0);
                schedules += g("schedules");
                distinct += g("distinct_traces");
                ooo += g("out_of_order_completions");
                blocked += g("feeder_blocked_on_refill");
                validated += g("traces_validated");
                conf_fail += g("conformance_failures");
                if g("distinct_traces") >= 2 {
                    nontrivial += 1;
                }
                if first_conf.is_none() {
                    if let Some(s) = o.result.get("first_conformance_failure").and_then(Value::as_str) {
                        first_conf = Some(format!("{}: {s}", o.sc.name));
                    }
                }
                if let Some(m) = o.result.get("outcomes").and_then(Value::as_object) {
                    for (k, v) in m {
                        *outcomes.entry(k.clone()).or_insert(0) += v.as_u64().unwrap_or(0);
                    }
                }
                per_scenario.insert(
                    o.sc.name.clone(),
                    json!({"schedules": g("schedules"), "distinct_traces": g("distinct_traces"), "preemption_bound": o.sc.preemption_bound, "wall_s": o.result.get("wall_s"), "expected": o.result.get("expected"), "lpc_subframes": g("lpc_subframes"), "fixed_subframes": g("fixed_subframes")}),
                );
                if samples.len() < 2 {
                    if let Some(t) = o.result.get("sample_traces").and_then(Value::as_array).and_then(|a| a.first()) {
                        samples.push(json!({"scenario": o.sc, "event_trace": t}));
                    }
                }
            }
            (3, "violation") => {
                let class = o.result.get("class").and_then(Value::as_str).unwrap_or("unknown").to_string();
                let what = o.result.get("what").and_then(Value::as_str).unwrap_or("").to_string();
                let weight = (o.sc.script.len() * 10 + o.sc.w_expected) as u64;
                let case = json!({"scenario": o.sc, "schedule_index": o.result.get("schedule_index"), "trace": o.result.get("trace")});
                let what = format!("{}: {what}", o.sc.name);
                match violations.get_mut(&class) {
                    Some(v) => {
                        v.3 += 1;
                        if weight < v.2 {
                            *v = (what, case, weight, v.3);
                        }
                    }
                    None => {
                        violations.insert(class, (what, case, weight, 1));
                    }
                }
            }
            (4, "cap") => caps.push(format!("{}: {}", o.sc.name, o.result.get("what").and_then(Value::as_str).unwrap_or(""))),
            (-9, _) => {
                // a child that does not finish within the horizon: reported as a hang of the scenario
                let case = json!({"scenario": o.sc});
                violations.entry("hang".into()).or_insert((format!("{}: no verdict within {} s", o.sc.name, per_child.as_secs()), case, 0, 0)).3 += 1;
            }
            (code, _) if code != 0 && journal_says_deadlock(&scratch, &o.sc.name).is_some() => {
                let msg = journal_says_deadlock(&scratch, &o.sc.name).unwrap();
                let case = json!({"scenario": o.sc});
                let weight = (o.sc.script.len() * 10 + o.sc.w_expected) as u64;
                let what = format!("{}: loom reports a deadlock (the call never returns in some interleaving): {msg}", o.sc.name);
                match violations.get_mut("deadlock") {
                    Some(v) => {
                        v.3 += 1;
                        if weight < v.2 {
                            *v = (what, case, weight, v.3);
                        }
                    }
                    None => {
                        violations.insert("deadlock".into(), (what, case, weight, 1));
                    }
                }
            }
            _ => machinery.push(format!("{}: child exit {} verdict '{verdict}' {} | {}", o.sc.name, o.code, o.result.get("what").and_then(Value::as_str).unwrap_or(""), o.stderr_tail.replace('\n', " "))),
        }
    }
    // ---- layer 2
    let mut states = 0u64;
    let mut transitions = 0u64;
    let mut model_rows = serde_json::Map::new();
    let mut sometimes_ooo = 0u64;
    if replay.is_none() {
        for (name, m) in model_instances(prop, thorough) {
            let exp = model::expected(&m.script);
            let w = m.w;
            let nf = m.script.iter().filter(|r| matches!(r, Read::Data { .. })).count();
            let t1 = Instant::now();
            let (uniq, gen, depth, disc) = model::explore(m, 16);
            eprintln!("[parx] model {name}: {uniq} states, {gen} generated, depth {depth}, {:.1}s", t1.elapsed().as_secs_f64());
            states += uniq as u64;
            transitions += gen as u64;
            let mut row = json!({"unique_states": uniq, "generated_states": gen, "max_depth": depth, "expected": format!("{exp:?}")});
            for (pname, path) in &disc {
                match pname.as_str() {
                    "safe" | "returns" => {
                        // the model itself breaks its properties: the model (not the code) is judged here
                        let case = json!({"model_instance": name, "property": pname, "thread_schedule": path});
                        violations.entry(format!("model|{pname}")).or_insert((format!("protocol model instance {name}: property '{pname}' fails along thread schedule [{path}]"), case, 1_000_000, 0)).3 += 1;
                    }
                    "out-of-order completion" => sometimes_ooo += 1,
                    _ => {}
                }
                row[pname.as_str()] = json!("discovered");
            }
            let _ = (w, nf, Outcome::Panic);
            model_rows.insert(name, row);
        }
    }
    // ---- layer 2 self-test: defects the pinned commit had, switched on in the model, must be found
    let mut selftest = serde_json::Map::new();
    if replay.is_none() && prop == "C06" {
        let ok = Read::Data { valid: true };
        let cases: Vec<(&str, model::Bug, Vec<Read>, usize)> = vec![
            ("return_before_stop", model::Bug::ReturnBeforeStop, vec![ok, Read::Err], 1),
            ("worker_dies_on_bad_frame", model::Bug::WorkerDiesOnBadFrame, vec![Read::Data { valid: false }, ok, ok, ok, Read::End], 1),
            ("one_stop_token_short", model::Bug::OneStopTokenShort, vec![ok, Read::End], 2),
        ];
        for (name, bug, script, w) in cases {
            let m = ParModel { w, script, process_cap: model::PROCESS_CAP, fill_at_end: false, bug: Some(bug) };
            let (uniq, _, _, disc) = model::explore(m, 4);
            let found = disc.iter().any(|(p, _)| p == "safe" || p == "returns");
            selftest.insert(name.to_string(), json!({"found": found, "states": uniq}));
            if !found {
                machinery.push(format!("protocol-model self-test: the seeded defect '{name}' was not found by the exploration"));
            }
        }
    }
    let _ = std::fs::remove_dir_all(&scratch);
    if conf_fail > 0 {
        eprintln!("[parx] note: {conf_fail} execution trace(s) were not accepted by the protocol model (model stale for this tree?): {}", first_conf.clone().unwrap_or_default());
    }
    let nscen = outs.len() as u64;
    let viol_json: Vec<Value> = violations.iter().map(|(c, v)| json!({"class": c, "what": v.0, "case": v.1, "count": v.3.max(1)})).collect();
    let rep = json!({
        "property": prop, "tier": tier, "seed": seed, "wall_s": t0.elapsed().as_secs_f64(),
        "rule": format!("layer 1: the real par.rs under loom (DPOR, preemption bound per scenario), {nscen} scenarios, one child process each; every execution compared with the single-thread result and checked for panics / live threads; layer 2: stateright DFS over ParModel instances (all interleavings); every loom execution's event log replayed through the model; non-trivial scenario = at least two distinct event traces"),
        "evaluations": schedules, "distinct_nontrivial": nontrivial,
        "samples": samples, "exhaustive": caps.is_empty() && machinery.is_empty(),
        "by_dimension": {}, "outcomes": outcomes, "counters": {"scenarios": nscen, "distinct_traces": distinct, "out_of_order_completions": ooo, "feeder_blocked_on_refill": blocked, "conformance_failures": conf_fail, "model_instances_with_out_of_order_completion": sometimes_ooo},
        "caps_hit": caps,
        "extra": {
            "states": states, "transitions": transitions, "schedules": schedules, "distinct_traces": distinct,
            "traces_validated_against_impl": validated, "out_of_order_completions": ooo,
            "max_preemptions_completed": if thorough { 3 } else { 2 },
            "unbounded_scenarios_completed": outs.iter().filter(|o| o.sc.preemption_bound >= 1000 && o.code == 0).map(|o| o.sc.name.clone()).collect::<Vec<_>>(),
            "first_conformance_failure": first_conf,
            "per_scenario": Value::Object(per_scenario), "model_instances": Value::Object(model_rows),
            "model_selftest_seeded_defects": Value::Object(selftest),
            "checker_cmd": format!("parx {} --tier {tier}", prop.to_lowercase()),
            "trusted_base": ["loom 0.7.2 models std::sync / std::thread", "bounded-channel stand-in in src/verif_sync.rs models crossbeam-channel (blocking, FIFO, disconnection)", "stateright 0.31.0 DFS"],
        },
        "violations": viol_json,
        "machinery_errors": machinery,
    });
    let s = serde_json::to_string_pretty(&rep).unwrap();
    match report {
        Some(p) => std::fs::write(p, s).unwrap(),
        None => println!("{s}"),
    }
    if !rep["machinery_errors"].as_array().unwrap().is_empty() {
        2
    } else if !violations.is_empty() {
        1
    } else {
        0
    }
}

fn main() {
    let args: Vec<String> = std::env::args().collect();
    if args.len() >= 4 && args[1] == "child" {
        std::process::exit(child(&args[2], &args[3]));
    }
    if args.len() < 2 {
        eprintln!("usage: parx <c05|c06> [--tier T] [--seed N] [--report FILE] [--replay FILE] | parx child <scenario> <result>");
        std::process::exit(2);
    }
    let prop = args[1].to_uppercase();
    let (mut tier, mut seed, mut report, mut replay) = ("quick".to_string(), 0u64, None, None);
    let mut i = 2;
    while i < args.len() {
        match args[i].as_str() {
            "--tier" => tier = args[i + 1].clone(),
            "--seed" => seed = args[i + 1].parse().unwrap_or(0),
            "--report" => report = Some(args[i + 1].clone()),
            "--replay" => replay = Some(args[i + 1].clone()),
            _ => {}
        }
        i += 2;
    }
    std::process::exit(run_parent(&prop, &tier, seed, report, replay));
}
