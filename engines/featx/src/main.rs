//! featx - encodes a fixed corpus with the `flacenc` build it was linked against and prints one
//! digest line per case. `vcheck C20` builds this probe once per cargo feature set and compares the
//! outputs: the emitted bytes must not depend on optional features (C20).
use flacenc::bitsink::ByteSink;
use flacenc::component::BitRepr;
use flacenc::config;
use flacenc::error::Verify;
use flacenc::source::MemSource;

fn lcg(s: &mut u64) -> u64 {
    *s = s.wrapping_mul(6364136223846793005).wrapping_add(1442695040888963407);
    *s >> 33
}

fn signal(kind: usize, bps: usize, ch: usize, n: usize) -> Vec<i32> {
    let max = (1i64 << (bps - 1)) - 1;
    let mut st = 0xC20u64 + kind as u64 * 77 + bps as u64;
    let mut v = Vec::with_capacity(n * ch);
    for t in 0..n {
        for c in 0..ch {
            let x: i64 = match kind {
                0 => 0,
                1 => ((t as f64 / 17.0 + c as f64).sin() * max as f64 * 0.6) as i64 + (lcg(&mut st) % 5) as i64 - 2,
                2 => (lcg(&mut st) as i64 % (2 * max + 1)) - max,
                3 => if (t / 64) % 2 == 0 { (lcg(&mut st) as i64 % (max + 1)) - max / 2 } else { (t % 3) as i64 - 1 },
                4 => if t % 2 == 0 { max } else { -max - 1 },
                _ => {
                    let base = ((t as f64 / 9.0).sin() * max as f64 * 0.3) as i64;
                    if c % 2 == 0 { base } else { base + (t as i64 % 5) - 2 }
                }
            };
            v.push(x.clamp(-max - 1, max) as i32);
        }
    }
    v
}

struct CaseDef {
    name: String,
    cfg: config::Encoder,
    samples: Vec<i32>,
    ch: usize,
    bps: usize,
    rate: usize,
    bs: usize,
    /// deliver through a source whose reads are sometimes shorter than the block size
    packets: bool,
}

struct PacketSource {
    ch: usize,
    bps: usize,
    rate: usize,
    samples: Vec<i32>,
    pos: usize,
    reads: usize,
}

impl flacenc::source::Source for PacketSource {
    fn channels(&self) -> usize {
        self.ch
    }
    fn bits_per_sample(&self) -> usize {
        self.bps
    }
    fn sample_rate(&self) -> usize {
        self.rate
    }
    fn read_samples<F: flacenc::source::Fill>(&mut self, block_size: usize, dest: &mut F) -> Result<usize, flacenc::error::SourceError> {
        let want = match self.reads % 5 {
            1 => (block_size / 2).max(1),
            3 => 1,
            4 => (block_size - 1).max(1),
            _ => block_size,
        };
        self.reads += 1;
        let end = (self.pos + want * self.ch).min(self.samples.len());
        dest.fill_interleaved(&self.samples[self.pos..end])?;
        let n = (end - self.pos) / self.ch;
        self.pos = end;
        Ok(n)
    }
}

fn corpus() -> Vec<CaseDef> {
    let mut v = Vec::new();
    let mut add = |name: String, f: &dyn Fn(&mut config::Encoder), kind: usize, bps: usize, ch: usize, n: usize, rate: usize, bs: usize| {
        let mut cfg = config::Encoder::default();
        f(&mut cfg);
        let packets = name.starts_with("packets_");
        v.push(CaseDef { name, cfg, samples: signal(kind, bps, ch, n), ch, bps, rate, bs, packets });
    };
    // inputs x default configuration, `multithread` defaulted (depends on the `par` feature) and explicit
    for (kind, bps, ch, n, rate, bs) in [
        (1usize, 16usize, 2usize, 500usize, 44100usize, 192usize),
        (2, 24, 2, 200, 96000, 64),
        (0, 8, 1, 100, 8000, 32),
        (3, 16, 1, 1000, 48000, 256),
        (4, 24, 1, 130, 65540, 64),
        (5, 12, 3, 300, 12345, 192),
        (1, 20, 8, 150, 48000, 64),
        (5, 16, 2, 9000, 44100, 4096),
        (1, 16, 2, 0, 44100, 64),
        (2, 16, 2, 40 * 32 + 3, 16000, 32),
        // frame counts around the points where the coded frame number grows by a byte
        (0, 8, 1, 129 * 32, 8000, 32),
        (0, 8, 1, 2049 * 32, 8000, 32),
        (1, 16, 1, 1300 * 32, 8000, 32),
        // call history on the calling thread (a build without `par`, or multithread = false, encodes there;
        // a `par` build uses fresh worker threads): a full block, then a lone block a few samples shorter
        // (same 16-sample class), then a stream whose last block is a few samples short; LPC-friendly content
        (1, 16, 1, 1024, 44100, 1024),
        (1, 16, 1, 1017, 44100, 1024),
        (1, 16, 1, 3 * 1024 + 1019, 44100, 1024),
        (5, 24, 2, 4096 + 4090, 48000, 4096),
    ] {
        for mt in [None, Some(false), Some(true)] {
            add(
                format!("in{kind}_{bps}b_{ch}ch_n{n}_bs{bs}_mt{mt:?}"),
                &move |c: &mut config::Encoder| {
                    if let Some(m) = mt {
                        c.multithread = m;
                    }
                    c.workers = std::num::NonZeroUsize::new(3);
                },
                kind, bps, ch, n, rate, bs,
            );
        }
    }
    // packet-delivering source, `multithread` defaulted and explicit
    for mt in [None, Some(false), Some(true)] {
        add(
            format!("packets_in1_16b_2ch_mt{mt:?}"),
            &move |c: &mut config::Encoder| {
                if let Some(m) = mt {
                    c.multithread = m;
                }
                c.workers = std::num::NonZeroUsize::new(2);
            },
            1, 16, 2, 900, 44100, 64,
        );
    }
    // configuration variants (non-experimental options only)
    type F = Box<dyn Fn(&mut config::Encoder)>;
    let variants: Vec<(&str, F)> = vec![
        ("no_lpc", Box::new(|c: &mut config::Encoder| c.subframe_coding.use_lpc = false)),
        ("no_fixed", Box::new(|c| c.subframe_coding.use_fixed = false)),
        ("no_constant", Box::new(|c| c.subframe_coding.use_constant = false)),
        ("bitcount", Box::new(|c| c.subframe_coding.fixed.order_sel = config::OrderSel::BitCount)),
        ("approxent1", Box::new(|c| c.subframe_coding.fixed.order_sel = config::OrderSel::ApproxEnt { partitions: 1 })),
        ("fixed_order1", Box::new(|c| c.subframe_coding.fixed.max_order = 1)),
        ("lpc24", Box::new(|c| c.subframe_coding.qlpc.lpc_order = 24)),
        ("lpc1_prec2", Box::new(|c| { c.subframe_coding.qlpc.lpc_order = 1; c.subframe_coding.qlpc.quant_precision = 2; })),
        ("rect", Box::new(|c| c.subframe_coding.qlpc.window = config::Window::Rectangle)),
        ("tukey1", Box::new(|c| c.subframe_coding.qlpc.window = config::Window::Tukey { alpha: 1.0 })),
        ("rice_cap3", Box::new(|c| c.subframe_coding.prc.max_parameter = 3)),
        ("no_stereo", Box::new(|c| { c.stereo_coding.use_leftside = false; c.stereo_coding.use_rightside = false; c.stereo_coding.use_midside = false; })),
        ("midside_only", Box::new(|c| { c.stereo_coding.use_leftside = false; c.stereo_coding.use_rightside = false; })),
    ];
    for (name, f) in variants {
        for (kind, bps) in [(1usize, 16usize), (2, 24), (5, 16)] {
            add(format!("cfg_{name}_in{kind}_{bps}b"), &|c: &mut config::Encoder| { f(c); c.multithread = false; }, kind, bps, 2, 600, 44100, 192);
        }
    }
    v
}

fn main() {
    // the worker count must not come from the machine
    std::env::set_var("FLACENC_WORKERS", "2");
    let only: Option<String> = std::env::args().nth(1);
    for c in corpus() {
        if let Some(o) = &only {
            if *o != c.name {
                continue;
            }
        }
        let r = std::panic::catch_unwind(|| {
            let cfg = c.cfg.clone().into_verified().map_err(|(_, e)| format!("config rejected: {e:?}"))?;
            let s = if c.packets {
                flacenc::encode_with_fixed_block_size(&cfg, PacketSource { ch: c.ch, bps: c.bps, rate: c.rate, samples: c.samples.clone(), pos: 0, reads: 0 }, c.bs)
            } else {
                flacenc::encode_with_fixed_block_size(&cfg, MemSource::from_samples(&c.samples, c.ch, c.bps, c.rate), c.bs)
            }
            .map_err(|e| format!("encode error: {e:?}"))?;
            let mut sink = ByteSink::new();
            s.write(&mut sink).map_err(|e| format!("write error: {e:?}"))?;
            Ok::<_, String>((s.frame_count(), sink.into_inner()))
        });
        match r {
            Ok(Ok((frames, bytes))) => {
                let mut h: u64 = 0xcbf29ce484222325;
                for b in &bytes {
                    h ^= *b as u64;
                    h = h.wrapping_mul(0x100000001b3);
                }
                println!("{}\t{}\t{}\t{:016x}", c.name, frames, bytes.len(), h);
            }
            Ok(Err(e)) => println!("{}\t-\t-\t{}", c.name, e.replace(['\t', '\n'], " ")),
            Err(_) => println!("{}\t-\t-\tpanic", c.name),
        }
    }
}
