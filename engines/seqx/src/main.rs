//! seqx - exhaustive sequential explorers for the flacenc properties (one sub-command per property).
mod atoms;
mod bitmodel;
mod panicx;
mod props;
mod report;
mod ricebf;
mod strictflac;
mod subject;
mod universe;

use report::Report;
use std::sync::Arc;

pub struct Args {
    pub prop: String,
    pub tier: String,
    pub seed: u64,
    pub report: Option<String>,
    pub replay: Option<String>,
}

fn parse_args() -> Args {
    let mut a = std::env::args().skip(1);
    let prop = a.next().unwrap_or_else(|| usage());
    let mut args = Args { prop, tier: "quick".into(), seed: 0, report: None, replay: None };
    while let Some(k) = a.next() {
        match k.as_str() {
            "--tier" => args.tier = a.next().unwrap_or_else(|| usage()),
            "--seed" => args.seed = a.next().and_then(|s| s.parse().ok()).unwrap_or_else(|| usage()),
            "--report" => args.report = a.next(),
            "--replay" => args.replay = a.next(),
            _ => usage(),
        }
    }
    if args.tier != "quick" && args.tier != "thorough" {
        usage();
    }
    args
}

fn usage() -> ! {
    eprintln!("usage: seqx <property|selftest> [--tier quick|thorough] [--seed N] [--report FILE] [--replay FILE]");
    std::process::exit(2)
}

fn main() {
    // Pin every source of nondeterminism the subject consults.
    std::env::set_var("FLACENC_WORKERS", "2");
    panicx::install();
    panicx::mark_harness_thread();
    let args = parse_args();
    let rep: Arc<Report> =
        Report::new(&args.prop.to_uppercase(), &args.tier, args.seed, args.report.clone(), args.replay.is_some());
    // a replay runs outside the parallel runner and its watchdog: give it one of its own (a case
    // that hangs - e.g. a multi-thread encode whose worker died - must end as a report, not as a
    // stuck process)
    if let Some(path) = args.replay.clone() {
        let rep2 = Arc::clone(&rep);
        std::thread::spawn(move || {
            std::thread::sleep(std::time::Duration::from_secs(240));
            let case = std::fs::read_to_string(&path).ok().and_then(|s| serde_json::from_str::<serde_json::Value>(&s).ok()).and_then(|v| v.get("case").cloned()).unwrap_or(serde_json::Value::Null);
            rep2.violation_conclusive("hang", "no result within 240 s while replaying the case", case, 0);
            rep2.emit();
            std::process::exit(rep2.exit_code());
        });
    }
    // safety net: a panic of the subject outside a guarded call is an observation, any other is a machinery error
    let known = match panicx::catch(|| props::dispatch(&args, &rep)) {
        Ok(k) => k,
        Err(p) => {
            if p.in_subject() {
                rep.violation_conclusive(&p.class(), &format!("the library panicked: {}", p.describe()), serde_json::json!({"unguarded_call": args.prop, "replay": args.replay}), 0);
            } else {
                rep.machinery_error(&format!("engine panic: {}", p.describe()));
            }
            true
        }
    };
    if !known {
        eprintln!("unknown property {}", args.prop);
        std::process::exit(2);
    }
    rep.emit();
    std::process::exit(rep.exit_code());
}
