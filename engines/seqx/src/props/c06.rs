//! C06 (real-thread part, supplementary to the loom / stateright exploration in `parx`): sources that
//! never end. A source without a length hint may be endless (a live input); single-thread encoding
//! returns at the first block that holds a sample outside the declared width, and multi-thread
//! encoding has to terminate with the same kind of error - a scripted (finite) source cannot show
//! whether it does.
use crate::report::{Local, Report};
use crate::{panicx, Args};
use flacenc::error::{EncodeError, SourceError, Verify};
use flacenc::source::{Fill, Source};
use serde::{Deserialize, Serialize};
use serde_json::{json, Value};
use std::sync::atomic::{AtomicBool, AtomicUsize, Ordering};
use std::sync::Arc;
use std::time::{Duration, Instant};

#[derive(Clone, Debug, Serialize, Deserialize)]
pub struct Probe {
    pub workers: usize,
    /// index of the block that holds the out-of-width sample
    pub bad_at: usize,
    pub bytes: bool,
}

struct Endless {
    bad_at: usize,
    bytes: bool,
    reads: Arc<AtomicUsize>,
    /// set by the watchdog: the next read fails, so that a call that would never return does
    abort: Arc<AtomicBool>,
}

impl Source for Endless {
    fn channels(&self) -> usize {
        1
    }
    fn bits_per_sample(&self) -> usize {
        12
    }
    fn sample_rate(&self) -> usize {
        8000
    }
    fn read_samples<F: Fill>(&mut self, block_size: usize, dest: &mut F) -> Result<usize, SourceError> {
        if self.abort.load(Ordering::SeqCst) {
            return Err(SourceError::from_io_error(std::io::Error::new(std::io::ErrorKind::Other, "watchdog")));
        }
        let k = self.reads.fetch_add(1, Ordering::SeqCst);
        let mut blk = vec![(k % 7) as i32 - 3; block_size];
        if k == self.bad_at {
            blk[block_size / 2] = 1 << 11; // outside 12 bits
        }
        if self.bytes {
            let b: Vec<u8> = blk.iter().flat_map(|s| s.to_le_bytes()[..2].to_vec()).collect();
            dest.fill_le_bytes(&b, 2)?;
        } else {
            dest.fill_interleaved(&blk)?;
        }
        Ok(block_size)
    }
}

fn kind(r: &Result<flacenc::component::Stream, EncodeError>) -> &'static str {
    match r {
        Ok(_) => "Ok",
        Err(EncodeError::Source(_)) => "Err(Source)",
        Err(EncodeError::Config(_)) => "Err(Config)",
        Err(_) => "Err(other)",
    }
}

const PATIENCE: Duration = Duration::from_secs(8);

fn run_probe(rep: &Report, local: &mut Local, p: &Probe) {
    local.evals += 1;
    let cj = || json!({"endless_source": p});
    let mk_cfg = |mt: bool| {
        let mut e = flacenc::config::Encoder::default();
        e.multithread = mt;
        e.workers = std::num::NonZeroUsize::new(p.workers);
        e.into_verified().ok().expect("default configuration must verify")
    };
    // single-thread reference
    let reads = Arc::new(AtomicUsize::new(0));
    let abort = Arc::new(AtomicBool::new(false));
    let st = panicx::catch(|| flacenc::encode_with_fixed_block_size(&mk_cfg(false), Endless { bad_at: p.bad_at, bytes: p.bytes, reads: Arc::clone(&reads), abort: Arc::clone(&abort) }, 32));
    let st_kind = match &st {
        Ok(r) => kind(r),
        Err(pn) => {
            rep.violation(&pn.class(), &format!("single-thread encode of an endless source panicked: {}", pn.describe()), cj(), 1);
            return;
        }
    };
    if st_kind != "Err(Config)" || reads.load(Ordering::SeqCst) != p.bad_at + 1 {
        rep.machinery_error(&format!("single-thread reference for {p:?}: {st_kind} after {} reads", reads.load(Ordering::SeqCst)));
        return;
    }
    // multi-thread call on its own thread, with a watchdog
    let reads = Arc::new(AtomicUsize::new(0));
    let abort = Arc::new(AtomicBool::new(false));
    let (tx, rx) = std::sync::mpsc::channel();
    let (r2, a2, p2) = (Arc::clone(&reads), Arc::clone(&abort), p.clone());
    let cfg = mk_cfg(true);
    let t0 = Instant::now();
    let h = std::thread::Builder::new()
        .stack_size(16 << 20)
        .spawn(move || {
            panicx::mark_harness_thread();
            let r = panicx::catch(|| flacenc::encode_with_fixed_block_size(&cfg, Endless { bad_at: p2.bad_at, bytes: p2.bytes, reads: r2, abort: a2 }, 32));
            let _ = tx.send(r.map(|x| kind(&x)).map_err(|pn| pn.describe()));
        })
        .expect("spawn");
    match rx.recv_timeout(PATIENCE) {
        Ok(Ok(k)) => {
            if k == st_kind {
                local.outcome("terminates_with_the_single_thread_kind");
                local.count("reads_of_the_multi_thread_call_beyond_the_failing_block", (reads.load(Ordering::SeqCst) - (p.bad_at + 1).min(reads.load(Ordering::SeqCst))) as u64);
                local.nontrivial.insert(crate::universe::fnv(&format!("{p:?}")));
            } else {
                local.outcome("result_kind_differs");
                rep.violation_conclusive("result_kind_differs|endless_source", &format!("endless source with an out-of-width sample in block {}: multi-thread {k}, single-thread {st_kind}", p.bad_at), cj(), 1);
            }
        }
        Ok(Err(pn)) => {
            local.outcome("panic");
            rep.violation_conclusive("caller_panic|endless_source", &format!("multi-thread encode of an endless source panicked: {pn}"), cj(), 1);
        }
        Err(_) => {
            let n = reads.load(Ordering::SeqCst);
            // make the call return (the next read fails) so that the thread does not outlive the check
            abort.store(true, Ordering::SeqCst);
            let after = rx.recv_timeout(Duration::from_secs(60)).ok();
            local.outcome("hang");
            rep.violation_conclusive(
                "hang|endless_source_after_invalid_block",
                &format!(
                    "source without an end, out-of-width sample in block {}, {} worker(s): single-thread encoding returns Err(Config) after {} reads; multi-thread encoding had not returned after {:.0} s and {} reads (it keeps feeding; the frame error is looked at only after the source ends){}",
                    p.bad_at,
                    p.workers,
                    p.bad_at + 1,
                    t0.elapsed().as_secs_f64().min(PATIENCE.as_secs_f64()),
                    n,
                    match after {
                        Some(Ok(k)) => format!("; once the source was made to fail it returned {k}"),
                        _ => String::new(),
                    }
                ),
                cj(),
                1,
            );
        }
    }
    let _ = h.join();
}

/// Extreme (valid) worker counts: multi-thread mode has to return what single-thread mode returns, for a
/// fault-free source and for each fault kind, also when the configured count is far beyond the machine.
struct Finite {
    blocks: usize,
    bad_at: Option<usize>,
    err_at: Option<usize>,
    k: usize,
}

impl Source for Finite {
    fn channels(&self) -> usize {
        1
    }
    fn bits_per_sample(&self) -> usize {
        12
    }
    fn sample_rate(&self) -> usize {
        8000
    }
    fn read_samples<F: Fill>(&mut self, block_size: usize, dest: &mut F) -> Result<usize, SourceError> {
        let k = self.k;
        self.k += 1;
        if Some(k) == self.err_at {
            return Err(SourceError::from_io_error(std::io::Error::new(std::io::ErrorKind::Other, "injected")));
        }
        if k >= self.blocks {
            dest.fill_interleaved(&[])?;
            return Ok(0);
        }
        let mut blk = vec![(k % 5) as i32 - 2; block_size];
        if Some(k) == self.bad_at {
            blk[1] = -(1 << 11) - 1;
        }
        dest.fill_interleaved(&blk)?;
        Ok(block_size)
    }
}

const WORKER_COUNTS: [usize; 4] = [300usize, 100_000, usize::MAX / 2 + 1, usize::MAX];
const SCRIPTS: [(&str, Option<usize>, Option<usize>); 3] = [("fault-free", None, None), ("out-of-width sample in block 2", Some(2usize), None), ("read error at block 3", None, Some(3usize))];

fn wc_case(workers: usize, name: &str) -> Value {
    json!({"extreme_worker_count": {"workers": workers, "script": name}})
}

/// One (worker count, script) probe, executed in this process.
fn worker_count_probe(rep: &Report, local: &mut Local, workers: usize, si: usize) {
    let (name, bad_at, err_at) = SCRIPTS[si];
    local.evals += 1;
    let cj = || wc_case(workers, name);
    let run = |mt: bool| {
        let mut e = flacenc::config::Encoder::default();
        e.multithread = mt;
        e.workers = std::num::NonZeroUsize::new(workers);
        let cfg = e.into_verified().ok().expect("configuration must verify");
        panicx::catch(|| kind(&flacenc::encode_with_fixed_block_size(&cfg, Finite { blocks: 5, bad_at, err_at, k: 0 }, 32)))
    };
    match (run(false), run(true)) {
        (Ok(a), Ok(b)) if a == b => {
            local.outcome("extreme_worker_count_agrees");
            local.nontrivial.insert(crate::universe::fnv(&format!("wc{workers}{name}")));
        }
        (Ok(a), Ok(b)) => rep.violation_conclusive("result_kind_differs|extreme_worker_count", &format!("{name}, workers = {workers}: multi-thread {b}, single-thread {a}"), cj(), 1),
        (_, Err(pn)) => rep.violation_conclusive(&format!("caller_panic|extreme_worker_count|{}", pn.class()), &format!("{name}, workers = {workers}: multi-thread encoding panicked: {}", pn.describe()), cj(), 1),
        (Err(pn), _) => rep.violation(&pn.class(), &format!("single-thread encoding panicked: {}", pn.describe()), cj(), 1),
    }
}

/// The same probe in a child process with a watchdog: a call that exhausts the machine's threads or
/// memory aborts the process that makes it, and that must end as an observation, not as a dead engine.
fn isolated_worker_count_probe(rep: &Report, local: &mut Local, workers: usize, si: usize) {
    static N: AtomicUsize = AtomicUsize::new(0);
    let name = SCRIPTS[si].0;
    let k = N.fetch_add(1, Ordering::SeqCst);
    let dir = std::env::temp_dir().join(format!("seqx-c06-{}-{k}", std::process::id()));
    let _ = std::fs::create_dir_all(&dir);
    let (case_f, rep_f) = (dir.join("case.json"), dir.join("report.json"));
    let _ = std::fs::write(&case_f, serde_json::to_string(&json!({"case": wc_case(workers, name)})).unwrap());
    let exe = std::env::current_exe().expect("own path");
    let child = std::process::Command::new(exe)
        .args(["c06", "--replay", case_f.to_str().unwrap(), "--report", rep_f.to_str().unwrap()])
        .env("VERIF_C06_CHILD", "1")
        .stdout(std::process::Stdio::null())
        .stderr(std::process::Stdio::piped())
        .spawn();
    local.count("worker_count_probes_in_a_child_process", 1);
    let mut child = match child {
        Ok(c) => c,
        Err(e) => {
            rep.machinery_error(&format!("cannot run the isolated worker-count probe: {e}"));
            return;
        }
    };
    // the pipe is drained by a helper so that a chatty child cannot block on it
    let mut err_pipe = child.stderr.take();
    let drain = std::thread::spawn(move || {
        let mut s = Vec::new();
        if let Some(p) = err_pipe.as_mut() {
            let _ = std::io::Read::read_to_end(p, &mut s);
        }
        String::from_utf8_lossy(&s).into_owned()
    });
    let t0 = Instant::now();
    let patience = Duration::from_secs(180);
    let status = loop {
        match child.try_wait() {
            Ok(Some(st)) => break Some(st),
            Ok(None) if t0.elapsed() > patience => {
                let _ = child.kill();
                let _ = child.wait();
                break None;
            }
            Ok(None) => std::thread::sleep(Duration::from_millis(20)),
            Err(e) => {
                rep.machinery_error(&format!("waiting for the isolated worker-count probe: {e}"));
                return;
            }
        }
    };
    let err = drain.join().unwrap_or_default();
    let tail: String = err.chars().rev().take(300).collect::<String>().chars().rev().collect::<String>().replace('\n', " ");
    let report: Option<Value> = std::fs::read_to_string(&rep_f).ok().and_then(|s| serde_json::from_str(&s).ok());
    local.evals += 1;
    match (status.and_then(|s| s.code()), status, report) {
        (_, None, _) => rep.violation_conclusive("hang|extreme_worker_count", &format!("{name}, workers = {workers}: no result within {} s", patience.as_secs()), wc_case(workers, name), 1),
        (Some(0), _, Some(_)) => {
            local.outcome("extreme_worker_count_agrees");
            local.nontrivial.insert(crate::universe::fnv(&format!("wc{workers}{name}")));
        }
        (Some(1), _, Some(r)) => {
            for v in r["violations"].as_array().cloned().unwrap_or_default() {
                rep.violation_conclusive(v["class"].as_str().unwrap_or("?"), v["what"].as_str().unwrap_or(""), wc_case(workers, name), 1);
            }
        }
        (code, st, _) => rep.violation_conclusive(
            "process_dies|extreme_worker_count",
            &format!("{name}, workers = {workers} (a verified configuration): the encoding process died (exit {code:?}, {st:?}): {tail}"),
            wc_case(workers, name),
            1,
        ),
    }
    let _ = std::fs::remove_dir_all(&dir);
}

fn run_worker_counts(rep: &Arc<Report>) {
    for workers in WORKER_COUNTS {
        // the three scripts of one worker count side by side
        let outs: Vec<Local> = std::thread::scope(|s| {
            let hs: Vec<_> = (0..SCRIPTS.len())
                .map(|si| {
                    let rep = Arc::clone(rep);
                    s.spawn(move || {
                        panicx::mark_harness_thread();
                        let mut l = Local::default();
                        isolated_worker_count_probe(&rep, &mut l, workers, si);
                        l
                    })
                })
                .collect();
            hs.into_iter().map(|h| h.join().expect("worker-count probe thread")).collect()
        });
        for l in outs {
            rep.merge(l);
        }
    }
}

pub fn run(args: &Args, rep: &Arc<Report>) {
    let mut local = Local::default();
    if let Some(p) = &args.replay {
        let s = std::fs::read_to_string(p).unwrap_or_default();
        let v: Value = serde_json::from_str(&s).unwrap_or(Value::Null);
        let c = v.get("case").cloned().unwrap_or(v);
        if let Some(w) = c.get("extreme_worker_count") {
            let workers = w["workers"].as_u64().unwrap_or(0) as usize;
            let si = SCRIPTS.iter().position(|s| Some(s.0) == w["script"].as_str()).unwrap_or(0);
            if std::env::var("VERIF_C06_CHILD").is_ok() {
                worker_count_probe(rep, &mut local, workers, si);
            } else {
                isolated_worker_count_probe(rep, &mut local, workers, si);
            }
        } else {
            let pr: Probe = serde_json::from_value(c["endless_source"].clone()).expect("replay file holds no endless-source probe");
            run_probe(rep, &mut local, &pr);
        }
        rep.merge(local);
        rep.set_rule("replay of one endless-source probe");
        return;
    }
    let mut probes = Vec::new();
    for workers in [1usize, 2, 4] {
        for bad_at in [0usize, 3, 40] {
            probes.push(Probe { workers, bad_at, bytes: (workers + bad_at) % 2 == 1 });
        }
    }
    // all probes at the same time: a call that never returns costs the patience once, not nine times
    let outs: Vec<Local> = std::thread::scope(|s| {
        let hs: Vec<_> = probes
            .iter()
            .map(|p| {
                let rep = Arc::clone(rep);
                s.spawn(move || {
                    panicx::mark_harness_thread();
                    let mut l = Local::default();
                    run_probe(&rep, &mut l, p);
                    l
                })
            })
            .collect();
        hs.into_iter().map(|h| h.join().expect("probe thread")).collect()
    });
    for l in outs {
        rep.merge(l);
    }
    run_worker_counts(rep);
    rep.merge(local);
    rep.sample(json!({"endless_source": probes[4]}));
    rep.extra("endless_source_probes", json!(probes.len()));
    rep.set_rule("real-thread part: a source without a length hint that never ends (mono 12 bit, blocks of 32) with one out-of-width sample in block {0, 3, 40} x workers {1, 2, 4} x integer / byte fills: multi-thread encoding has to return, with the kind of error single-thread encoding returns (Err(Config) after bad_at + 1 reads), within 8 s (it needs milliseconds when it stops feeding); plus worker counts {300, 100000, 2^63, usize::MAX} x {fault-free, out-of-width sample, read error}: multi-thread result kind == single-thread result kind, no panic, each probe in a child process of its own under a watchdog of 180 s (a process that dies or does not answer is a violation); non-trivial = a probe that terminated with the right kind");
}
