//! C10 - encoding is independent of call history and of the calling thread.
//!
//! Every sequence of length <= 3 over a call alphabet K (thorough: also length 4 over a reduced alphabet) is executed on one
//! newly spawned thread; call by call the bytes must equal the bytes of the same call made alone
//! on a fresh thread.
use crate::bitmodel::{FailingSink, Flavour};
use crate::report::{par_for, Local, Report};
use crate::subject::{self, Mode};
use crate::universe::{self, Case};
use crate::{panicx, Args};
use flacenc::bitsink::MemSink;
use flacenc::component::{BitRepr, ChannelAssignment, FrameHeader, FrameOffset};
use serde::{Deserialize, Serialize};
use serde_json::{json, Value};
use std::sync::Arc;
use std::time::Duration;

#[derive(Clone, Debug, Serialize, Deserialize, PartialEq)]
pub enum Call {
    /// stream-level single-thread encode + ByteSink
    Encode(Case),
    /// frame-by-frame assembly + ByteSink
    FrameLevel(Case),
    /// multi-thread encode (two workers)
    EncodeMt(Case),
    /// encode, serialise through MemSink<u64>
    EncodeWrite64(Case),
    /// encode, serialise, parse with the crate's parser, re-serialise
    EncodeParse(Case),
    /// a frame header written into a sink that refuses its first operation
    FailingHeaderWrite,
    /// a stream written into a sink that fails on its k-th operation
    FailingSinkWrite(Case, usize),
    /// a stream written into a sink that fails on the j-th operation counted from the end of the complete
    /// write (0 = the CRC-16 of the last frame, 1 = the body of the last frame, ...)
    FailingSinkWriteFromEnd(Case, usize),
    /// stream-level encode of an input whose block `b` holds a sample outside the declared width:
    /// the call must fail, and what it leaves behind on the thread must not matter
    EncodeBadSample(Case, usize),
    /// encode, serialise, parse, decode with the crate's own decoder: the result is the decoded samples
    EncodeDecode(Case),
    /// configuration verification of an out-of-range configuration followed by nothing else
    RejectedConfig,
}

fn alphabet() -> Vec<(String, Call)> {
    let b = |i: usize| universe::decode(&universe::base_points()[i]);
    let mut v: Vec<(String, Call)> = Vec::new();
    let base = b(1);
    v.push(("stereo16_bs192".into(), Call::Encode(base.clone())));
    {
        let mut c = b(0);
        c.input.bps = 16;
        c.input.bs = 4096;
        c.input.full = 1;
        c.input.tail = 0;
        c.input.atoms = [26, 26, 26, 26];
        v.push(("mono16_bs4096".into(), Call::Encode(c)));
    }
    v.push(("stereo24_loud_bs64".into(), Call::Encode(b(2))));
    {
        let mut c = b(0);
        c.input.ch = 5;
        c.input.bs = 33;
        v.push(("five_ch8_bs33".into(), Call::Encode(c)));
    }
    {
        let mut c = base.clone();
        c.input.atoms = [0, 0, 0, 0];
        v.push(("stereo16_silent".into(), Call::Encode(c)));
    }
    {
        let mut c = b(2);
        c.cfg.max_param = 2;
        v.push(("rice_cap2_loud".into(), Call::Encode(c)));
    }
    {
        let mut c = base.clone();
        c.cfg.lpc_order = 24;
        v.push(("lpc_order24".into(), Call::Encode(c)));
    }
    {
        let mut c = base.clone();
        c.cfg.lpc_order = 1;
        c.cfg.precision = 2;
        v.push(("lpc_order1_prec2".into(), Call::Encode(c)));
    }
    // LPC as the only predictor (every change of the analysis shows in the bytes), at the extreme orders,
    // on several inputs
    for (name, bi, order) in [("lpc_only_order10_stereo16", 1usize, 10u8), ("lpc_only_order24_stereo16", 1, 24), ("lpc_only_order1_stereo16", 1, 1), ("lpc_only_order24_stereo24_loud", 2, 24), ("lpc_only_order24_mono8", 0, 24), ("lpc_only_order24_three_ch12", 3, 24), ("order24_stereo24_inverted", 5, 24)] {
        let mut c = b(bi);
        c.cfg.lpc_order = order;
        c.cfg.use_fixed = !name.starts_with("lpc_only");
        v.push((name.into(), Call::Encode(c)));
    }
    // window variants on one input (same block size so that window caches collide)
    let mut w = b(0);
    w.input.bps = 16;
    w.input.bs = 256;
    w.input.full = 2;
    w.input.tail = 0;
    w.input.atoms = [12, 4, 12, 12];
    for (name, alpha) in [("rect", -1.0f32), ("tukey0", 0.0), ("tukey1e-5", 1e-5), ("tukey0.4", 0.4), ("tukey0.4+1e-6", 0.400001), ("tukey0.5", 0.5)] {
        let mut c = w.clone();
        c.cfg.window = alpha;
        v.push((format!("window_{name}_bs256"), Call::Encode(c)));
    }
    // block lengths next to each other (191 vs 192, 255 vs 256)
    {
        let mut c = base.clone();
        c.input.full = 0;
        c.input.tail = 191;
        v.push(("stereo16_one_frame_of_191".into(), Call::Encode(c)));
        let mut c = w.clone();
        c.input.full = 0;
        c.input.tail = 255;
        c.cfg.window = 0.4;
        v.push(("mono16_one_frame_of_255".into(), Call::Encode(c)));
    }
    // the remaining widths and channel layouts (base points 3, 4, 5), byte delivery, other order selections
    v.push(("three_ch12_bs192".into(), Call::Encode(b(3))));
    v.push(("eight_ch20_bs64".into(), Call::Encode(b(4))));
    v.push(("stereo24_inverted_bs192".into(), Call::Encode(b(5))));
    {
        let mut c = base.clone();
        c.input.delivery = 2;
        v.push(("stereo16_bytes".into(), Call::Encode(c)));
        let mut c = b(2);
        c.input.delivery = 2;
        c.input.tail = 63;
        v.push(("stereo24_bytes_tail63".into(), Call::Encode(c)));
    }
    {
        let mut c = base.clone();
        c.cfg.order_sel = 0;
        v.push(("bitcount_order_sel".into(), Call::Encode(c)));
        let mut c = base.clone();
        c.cfg.order_sel = 64;
        c.input.bs = 128;
        v.push(("approxent64_bs128".into(), Call::Encode(c)));
    }
    {
        // a longer block after/before the shorter ones of the same width: grow-only scratch
        let mut c = base.clone();
        c.input.bs = 1152;
        c.input.full = 1;
        c.input.tail = 577;
        v.push(("stereo16_bs1152_tail577".into(), Call::Encode(c)));
    }
    v.push(("bad_sample_block0".into(), Call::EncodeBadSample(base.clone(), 0)));
    v.push(("bad_sample_block1".into(), Call::EncodeBadSample(base.clone(), 1)));
    v.push(("bad_sample_block1_24bit".into(), Call::EncodeBadSample(b(2), 1)));
    v.push(("decode_stereo16".into(), Call::EncodeDecode(base.clone())));
    v.push(("decode_stereo24_loud".into(), Call::EncodeDecode(b(2))));
    v.push(("rejected_config".into(), Call::RejectedConfig));
    v.push(("frame_level_stereo16".into(), Call::FrameLevel(base.clone())));
    v.push(("frame_level_stereo24_loud".into(), Call::FrameLevel(b(2))));
    {
        let mut c = b(4);
        c.cfg.workers = 3;
        v.push(("mt_eight_ch20".into(), Call::EncodeMt(c)));
    }
    v.push(("mt_stereo16".into(), Call::EncodeMt(base.clone())));
    v.push(("write64_stereo16".into(), Call::EncodeWrite64(base.clone())));
    v.push(("parse_stereo16".into(), Call::EncodeParse(base.clone())));
    v.push(("failing_header_write".into(), Call::FailingHeaderWrite));
    v.push(("failing_sink_write_k3".into(), Call::FailingSinkWrite(base.clone(), 3)));
    v.push(("failing_sink_write_k40".into(), Call::FailingSinkWrite(b(0), 40)));
    v.push(("failing_sink_write_last_crc".into(), Call::FailingSinkWriteFromEnd(base.clone(), 0)));
    v.push(("failing_sink_write_last_body".into(), Call::FailingSinkWriteFromEnd(base.clone(), 1)));
    v.push(("failing_sink_write_body_before_last".into(), Call::FailingSinkWriteFromEnd(base.clone(), 3)));
    v
}

/// Executes one call; the result is the byte string the property speaks about (or a marker for
/// calls that are expected to fail).
fn exec(call: &Call) -> Result<Vec<u8>, String> {
    let r = panicx::catch(|| -> Result<Vec<u8>, String> {
        match call {
            Call::Encode(c) => subject::encode_bytes(c, &c.input.samples(), Mode::St).map(|x| x.1).map_err(|e| e.describe()),
            Call::FrameLevel(c) => subject::encode_bytes(c, &c.input.samples(), Mode::Frame).map(|x| x.1).map_err(|e| e.describe()),
            Call::EncodeMt(c) => {
                let mut c = c.clone();
                if c.cfg.workers == 0 {
                    c.cfg.workers = 2;
                }
                subject::encode_bytes(&c, &c.input.samples(), Mode::Mt).map(|x| x.1).map_err(|e| e.describe())
            }
            Call::EncodeWrite64(c) => {
                let s = subject::encode(c, &c.input.samples(), Mode::St).map_err(|e| e.describe())?;
                let mut sink = MemSink::<u64>::new();
                s.write(&mut sink).map_err(|e| format!("{e:?}"))?;
                let mut out = vec![0u8; (sink.len() + 7) / 8];
                sink.write_to_byte_slice(&mut out);
                Ok(out)
            }
            Call::EncodeParse(c) => {
                let (_, bytes) = subject::encode_bytes(c, &c.input.samples(), Mode::St).map_err(|e| e.describe())?;
                let (_, parsed) = flacenc::component::parser::stream::<nom::error::Error<&[u8]>>(&bytes).map_err(|e| format!("{e:?}").chars().take(100).collect::<String>())?;
                subject::stream_bytes(&parsed).map_err(|e| e.describe())
            }
            Call::FailingHeaderWrite => {
                let h = FrameHeader::new(192, ChannelAssignment::Independent(2), 16, 44100, FrameOffset::StartSample(123_456_789)).map_err(|e| format!("{e:?}"))?;
                let mut sink = FailingSink::new(0, Flavour::Full);
                Ok(match h.write(&mut sink) {
                    Ok(()) => b"header write succeeded".to_vec(),
                    Err(_) => b"header write failed".to_vec(),
                })
            }
            Call::FailingSinkWriteFromEnd(c, j) => {
                let s = subject::encode(c, &c.input.samples(), Mode::St).map_err(|e| e.describe())?;
                let mut dry = FailingSink::new(usize::MAX, Flavour::Full);
                s.write(&mut dry).map_err(|e| format!("{e:?}"))?;
                let k = dry.ops.saturating_sub(1 + *j);
                let mut sink = FailingSink::new(k, Flavour::Full);
                let r = s.write(&mut sink);
                let mut out = crate::bitmodel::bytes_of_bits(&sink.inner.bits);
                out.push(u8::from(r.is_ok()));
                Ok(out)
            }
            Call::EncodeBadSample(c, blk) => {
                let mut smp = c.input.samples();
                let at = (*blk * c.input.bs as usize * c.input.ch as usize + c.input.ch as usize * 5 + (c.input.ch as usize - 1)).min(smp.len() - 1);
                smp[at] = 1 << c.input.bps; // outside the declared width
                match subject::encode_bytes(c, &smp, Mode::St) {
                    Ok(_) => Ok(b"accepted an out-of-width sample".to_vec()),
                    Err(subject::EncFail::Error(_)) => Ok(b"refused".to_vec()),
                    Err(e) => Err(e.describe()),
                }
            }
            Call::EncodeDecode(c) => {
                use flacenc::component::Decode;
                let (_, bytes) = subject::encode_bytes(c, &c.input.samples(), Mode::St).map_err(|e| e.describe())?;
                let (_, parsed) = flacenc::component::parser::stream::<nom::error::Error<&[u8]>>(&bytes).map_err(|e| format!("{e:?}").chars().take(100).collect::<String>())?;
                let mut out = Vec::new();
                for i in 0..parsed.frame_count() {
                    for v in parsed.frame(i).unwrap().decode() {
                        out.extend_from_slice(&v.to_le_bytes());
                    }
                }
                Ok(out)
            }
            Call::RejectedConfig => {
                use flacenc::error::Verify;
                let mut e = flacenc::config::Encoder::default();
                e.subframe_coding.qlpc.lpc_order = 33;
                e.block_size = 7;
                Ok(match e.into_verified() {
                    Ok(_) => b"accepted".to_vec(),
                    Err(_) => b"rejected".to_vec(),
                })
            }
            Call::FailingSinkWrite(c, k) => {
                let s = subject::encode(c, &c.input.samples(), Mode::St).map_err(|e| e.describe())?;
                let mut sink = FailingSink::new(*k, Flavour::Full);
                let r = s.write(&mut sink);
                let mut out = crate::bitmodel::bytes_of_bits(&sink.inner.bits);
                out.push(u8::from(r.is_ok()));
                Ok(out)
            }
        }
    });
    match r {
        Ok(x) => x,
        Err(p) => Err(format!("panic: {}", p.describe())),
    }
}

fn on_fresh_thread<T: Send + 'static>(f: impl FnOnce() -> T + Send + 'static) -> T {
    std::thread::Builder::new()
        .stack_size(16 << 20)
        .spawn(move || {
            panicx::mark_harness_thread();
            f()
        })
        .unwrap()
        .join()
        .expect("harness thread died")
}

fn digest(r: &Result<Vec<u8>, String>) -> (usize, u64, String) {
    match r {
        Ok(b) => {
            let mut h: u64 = 0xcbf29ce484222325;
            for x in b {
                h ^= *x as u64;
                h = h.wrapping_mul(0x100000001b3);
            }
            (b.len(), h, String::new())
        }
        Err(e) => (0, 0, e.clone()),
    }
}

fn run_sequence(rep: &Report, local: &mut Local, alpha: &Arc<Vec<(String, Call)>>, refs: &Arc<Vec<(usize, u64, String)>>, seq: &[usize]) {
    local.evals += 1;
    let a2 = Arc::clone(alpha);
    let s2: Vec<usize> = seq.to_vec();
    let outs: Vec<(usize, u64, String)> = on_fresh_thread(move || s2.iter().map(|&i| digest(&exec(&a2[i].1))).collect());
    let names: Vec<&str> = seq.iter().map(|&i| alpha[i].0.as_str()).collect();
    let mut ok = true;
    for (pos, (&i, out)) in seq.iter().zip(outs.iter()).enumerate() {
        if *out != refs[i] {
            ok = false;
            // class: the call that changed and the call right before it
            let prev = if pos > 0 { alpha[seq[pos - 1]].0.as_str() } else { "-" };
            let calls: Vec<&Call> = seq.iter().map(|&j| &alpha[j].1).collect();
            rep.violation_conclusive(
                &format!("history_dependent|{}|after|{}", alpha[i].0, prev),
                &format!(
                    "call {pos} ({}) of the sequence {names:?} produced {} bytes (fnv {:x}{}), the same call alone on a fresh thread {} bytes (fnv {:x}{})",
                    alpha[i].0, out.0, out.1, if out.2.is_empty() { String::new() } else { format!(", {}", out.2) }, refs[i].0, refs[i].1, if refs[i].2.is_empty() { String::new() } else { format!(", {}", refs[i].2) }
                ),
                json!({"call_sequence": calls, "names": names}),
                seq.len() as u64,
            );
            break;
        }
    }
    local.outcome(if ok { "ok" } else { "violation" });
    if ok && seq.len() >= 2 {
        local.nontrivial.insert(seq.iter().fold(7u64, |h, &i| h.wrapping_mul(131).wrapping_add(i as u64 + 1)));
    }
}

pub fn run(args: &Args, rep: &Arc<Report>) {
    let thorough = args.tier == "thorough";
    let alpha = Arc::new(alphabet());
    let k = alpha.len();
    if let Some(p) = &args.replay {
        let s = std::fs::read_to_string(p).unwrap_or_default();
        let v: Value = serde_json::from_str(&s).unwrap_or(Value::Null);
        let c = v.get("case").cloned().unwrap_or(v);
        let calls: Vec<Call> = serde_json::from_value(c["call_sequence"].clone()).expect("replay file holds no call sequence");
        let named: Arc<Vec<(String, Call)>> = Arc::new(calls.iter().enumerate().map(|(i, c)| (alpha.iter().find(|(_, x)| x == c).map_or(format!("call{i}"), |(n, _)| n.clone()), c.clone())).collect());
        let refs: Arc<Vec<(usize, u64, String)>> = Arc::new(
            named
                .iter()
                .map(|(_, c)| {
                    let c = c.clone();
                    on_fresh_thread(move || digest(&exec(&c)))
                })
                .collect(),
        );
        let seq: Vec<usize> = (0..named.len()).collect();
        let mut local = Local::default();
        run_sequence(rep, &mut local, &named, &refs, &seq);
        rep.merge(local);
        rep.set_rule("replay of one recorded call sequence");
        return;
    }
    // references: each call alone on a fresh thread, twice (must agree with itself)
    let mut refs = Vec::new();
    for (name, call) in alpha.iter() {
        let (c1, c2) = (call.clone(), call.clone());
        let r1 = on_fresh_thread(move || digest(&exec(&c1)));
        let r2 = on_fresh_thread(move || digest(&exec(&c2)));
        if r1 != r2 {
            rep.violation_conclusive(
                &format!("not_repeatable|{name}"),
                &format!("the call {name} made alone on two fresh threads gives different results: {r1:?} vs {r2:?}"),
                json!({"call_sequence": [call], "names": [name]}),
                1,
            );
        }
        if !r1.2.is_empty() && !matches!(call, Call::FailingHeaderWrite) {
            rep.machinery_error(&format!("reference call {name} failed: {}", r1.2));
        }
        refs.push(r1);
    }
    let refs = Arc::new(refs);
    // all sequences of length 1..=depth (the index is decoded into the sequence, nothing is materialised)
    let depth: usize = 3;
    let mut offsets = vec![0usize];
    for l in 1..=depth {
        offsets.push(offsets[l - 1] + k.pow(l as u32));
    }
    let n = offsets[depth];
    let seq_of = |mut i: usize| -> Vec<usize> {
        let l = (1..=depth).find(|&l| i < offsets[l]).unwrap();
        i -= offsets[l - 1];
        let mut v = vec![0usize; l];
        for p in (0..l).rev() {
            v[p] = i % k;
            i /= k;
        }
        v
    };
    let chunk = 16;
    par_for(
        rep,
        (n + chunk - 1) / chunk,
        Duration::from_secs(600),
        |i| json!({"call_sequence_names": seq_of(i * chunk).iter().map(|&j| alpha[j].0.clone()).collect::<Vec<_>>()}),
        |i, local| {
            for x in i * chunk..((i + 1) * chunk).min(n) {
                run_sequence(rep, local, &alpha, &refs, &seq_of(x));
            }
        },
    );
    // thorough: every sequence of length 4 over the reduced alphabet K' (the calls that leave or read
    // per-thread state in the most ways); length 4 over the whole of K would be 5.8 million sequences
    let mut depth4 = 0usize;
    if thorough {
        let core: Vec<usize> = (0..k)
            .filter(|&i| {
                let n = alpha[i].0.as_str();
                ["lpc", "window_tukey0.4", "window_rect", "one_frame_of", "failing", "bad_sample", "stereo16_bs192", "mono16_bs4096", "rice_cap2", "decode_stereo16", "mt_stereo16", "stereo16_bs1152", "bytes_tail63"].iter().any(|p| n.contains(p))
            })
            .collect();
        let kc = core.len();
        let n4 = kc.pow(4);
        depth4 = n4;
        let seq4 = |mut i: usize| -> Vec<usize> {
            let mut v = vec![0usize; 4];
            for p in (0..4).rev() {
                v[p] = core[i % kc];
                i /= kc;
            }
            v
        };
        par_for(
            rep,
            (n4 + 63) / 64,
            Duration::from_secs(600),
            |i| json!({"call_sequence_names": seq4(i * 64).iter().map(|&j| alpha[j].0.clone()).collect::<Vec<_>>()}),
            |i, local| {
                for x in i * 64..((i + 1) * 64).min(n4) {
                    run_sequence(rep, local, &alpha, &refs, &seq4(x));
                }
            },
        );
        rep.extra("reduced_alphabet", json!(core.iter().map(|&i| alpha[i].0.clone()).collect::<Vec<_>>()));
        rep.extra("sequences_of_length_4_over_the_reduced_alphabet", json!(n4));
    }
    let _ = depth4;
    // "... or any other thread": every unordered pair of calls made at the same time on two newly
    // spawned threads (released together by a barrier; one operating-system schedule per pair - a
    // sample in the schedule dimension, but every reported difference is a real one)
    let mut pairs: Vec<(usize, usize)> = Vec::new();
    for a in 0..k {
        for b in a..k {
            pairs.push((a, b));
        }
    }
    let npairs = pairs.len();
    par_for(
        rep,
        npairs,
        Duration::from_secs(600),
        |i| json!({"concurrent_pair": [alpha[pairs[i].0].0, alpha[pairs[i].1].0]}),
        |i, local| {
            let (a, b) = pairs[i];
            local.evals += 1;
            let bar = Arc::new(std::sync::Barrier::new(2));
            let (al1, al2, b1, b2) = (Arc::clone(&alpha), Arc::clone(&alpha), Arc::clone(&bar), Arc::clone(&bar));
            let h1 = std::thread::Builder::new().stack_size(16 << 20).spawn(move || { panicx::mark_harness_thread(); b1.wait(); digest(&exec(&al1[a].1)) }).unwrap();
            let h2 = std::thread::Builder::new().stack_size(16 << 20).spawn(move || { panicx::mark_harness_thread(); b2.wait(); digest(&exec(&al2[b].1)) }).unwrap();
            let (r1, r2) = (h1.join().expect("harness thread died"), h2.join().expect("harness thread died"));
            let mut ok = true;
            for (me, other, r) in [(a, b, &r1), (b, a, &r2)] {
                if *r != refs[me] {
                    ok = false;
                    rep.violation_conclusive(
                        &format!("thread_dependent|{}|while|{}", alpha[me].0, alpha[other].0),
                        &format!("the call {} made on a fresh thread while another fresh thread made the call {} produced {} bytes (fnv {:x} {}), alone {} bytes (fnv {:x} {})", alpha[me].0, alpha[other].0, r.0, r.1, r.2, refs[me].0, refs[me].1, refs[me].2),
                        json!({"call_sequence": [&alpha[me].1], "names": [alpha[me].0], "concurrent_with": alpha[other].0}),
                        1,
                    );
                }
            }
            local.outcome(if ok { "pair_ok" } else { "pair_violation" });
            if ok {
                local.nontrivial.insert(0x9e37_79b9u64.wrapping_mul(a as u64 + 1).wrapping_add(b as u64));
            }
        },
    );
    rep.sample(json!({"call_sequence_names": [alpha[9].0, alpha[10].0]}));
    rep.sample(json!({"call_sequence_names": [alpha[1].0, alpha[0].0, alpha[0].0]}));
    rep.extra("alphabet", json!(alpha.iter().map(|(n, _)| n.clone()).collect::<Vec<_>>()));
    rep.extra("sequences", json!(n));
    rep.extra("max_sequence_length_completed", json!(depth));
    rep.extra("concurrent_pairs", json!(npairs));
    rep.set_rule(&format!(
        "call alphabet K of {k} calls (stream encodes differing in block size / channels / width / loudness / Rice cap / LPC order / window incl. alphas closer than 2^-16 and adjacent block lengths; frame-level assembly; multi-thread encode; serialisation through the word sink; parse + re-serialise; a header write that fails; stream writes into a failing sink); an encode refused for an out-of-width sample in block 0 / 1, the crate's own decoder, a rejected configuration); every sequence over K of length 1..={} (complete: |K|+|K|^2+|K|^3; thorough: in addition every sequence of length 4 over a reduced alphabet, listed in the evidence); each sequence runs on one newly spawned thread and each call's bytes must equal the bytes of that call made alone on a fresh thread (references computed twice); in addition every unordered pair of calls made at the same time on two fresh threads (one OS schedule each); non-trivial = a sequence of at least two calls that agreed",
        depth
    ));
}
