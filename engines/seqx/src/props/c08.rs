//! C08 - reported bit counts equal the bits actually written.
use super::ustream::{self, drive};
use crate::bitmodel::CountingSink;
use crate::report::{par_for, Local, Report};
use crate::subject::{self, EncFail, Mode};
use crate::universe::Case;
use crate::{panicx, Args};
use flacenc::bitsink::{ByteSink, MemSink};
use flacenc::component::{
    BitRepr, ChannelAssignment, Frame, FrameHeader, FrameOffset, MetadataBlockData, Residual, Stream, SubFrame,
};
use serde_json::{json, Value};
use std::sync::Arc;
use std::time::Duration;

/// Components reporting more than this are written into the counting sink only.
const MAX_MATERIALISED_BITS: usize = 1 << 29;

/// Compares `count_bits` with the three sinks. Returns the count when everything agrees.
pub fn check_component<C: BitRepr>(
    rep: &Report,
    local: &mut Local,
    kind: &str,
    c: &C,
    case: &dyn Fn() -> Value,
    weight: u64,
    whole_bytes: bool,
) -> Option<usize> {
    local.count(&format!("components_{kind}"), 1);
    let count = match panicx::catch(|| c.count_bits()) {
        Ok(n) => n,
        Err(p) => {
            rep.violation(&format!("count_bits_{}|{kind}", p.class()), &format!("{kind}: count_bits panicked: {}", p.describe()), case(), weight);
            return None;
        }
    };
    let mut ok = true;
    let mut fail = |sink: &str, got: String| {
        ok = false;
        rep.violation(
            &format!("count_mismatch|{kind}|{sink}"),
            &format!("{kind}: count_bits() = {count} but {sink} received {got}"),
            case(),
            weight,
        );
    };
    // counting sink (always)
    match panicx::catch(|| {
        let mut s = CountingSink::default();
        c.write(&mut s).map(|()| s.bits).map_err(|e| format!("{e:?}"))
    }) {
        Ok(Ok(b)) => {
            if b != count as u64 {
                fail("counting sink", format!("{b} bits"));
            }
        }
        Ok(Err(_)) => {
            // a component whose serialisation is refused (range error) has no written size to
            // compare; whether its constructor should have refused it is C18's subject
            local.count("components_whose_write_is_refused", 1);
            return None;
        }
        Err(p) => fail("counting sink", format!("panic {}", p.describe())),
    }
    if count <= MAX_MATERIALISED_BITS {
        // the bits a sink *holds* are judged, not only the length it reports: the stored bytes of the byte
        // sink must be ceil(count / 8) and must equal the export of the word sink
        let mut held8: Option<Vec<u8>> = None;
        match panicx::catch(|| {
            let mut s = ByteSink::new();
            c.write(&mut s).map(|()| (s.len(), s.as_slice().to_vec())).map_err(|e| format!("{e:?}"))
        }) {
            Ok(Ok((b, bytes))) => {
                if b != count {
                    fail("MemSink<u8>", format!("{b} bits"));
                } else if bytes.len() != (count + 7) / 8 {
                    fail("MemSink<u8>", format!("{} stored bytes ({} bits reported by len())", bytes.len(), b));
                }
                held8 = Some(bytes);
            }
            Ok(Err(e)) => fail("MemSink<u8>", format!("error {e}")),
            Err(p) => fail("MemSink<u8>", format!("panic {}", p.describe())),
        }
        match panicx::catch(|| {
            let mut s = MemSink::<u64>::new();
            c.write(&mut s).map(|()| {
                let mut out = vec![0xA5u8; (s.len() + 7) / 8];
                s.write_to_byte_slice(&mut out);
                (s.len(), out)
            }).map_err(|e| format!("{e:?}"))
        }) {
            Ok(Ok((b, bytes))) => {
                if b != count {
                    fail("MemSink<u64>", format!("{b} bits"));
                } else if let Some(h) = &held8 {
                    if h.len() == bytes.len() && *h != bytes {
                        let at = h.iter().zip(bytes.iter()).position(|(x, y)| x != y);
                        fail("MemSink<u8> vs MemSink<u64>", format!("the same number of bits but different content (first difference at byte {at:?})"));
                    }
                }
            }
            Ok(Err(e)) => fail("MemSink<u64>", format!("error {e}")),
            Err(p) => fail("MemSink<u64>", format!("panic {}", p.describe())),
        }
    } else {
        local.count("components_counted_only", 1);
    }
    if whole_bytes && count % 8 != 0 {
        ok = false;
        rep.violation(&format!("not_whole_bytes|{kind}"), &format!("{kind}: {count} bits is not a whole number of bytes"), case(), weight);
    }
    ok.then_some(count)
}

fn check_frame(rep: &Report, local: &mut Local, origin: &str, fr: &Frame, case: &dyn Fn() -> Value, w: u64) {
    check_component(rep, local, &format!("{origin}:frame"), fr, case, w, true);
    check_component(rep, local, &format!("{origin}:frame_header"), fr.header(), case, w, true);
    check_component(rep, local, &format!("{origin}:channel_assignment"), fr.header().channel_assignment(), case, w, false);
    for ch in 0..fr.subframe_count() {
        let sf = fr.subframe(ch).unwrap();
        check_component(rep, local, &format!("{origin}:subframe"), sf, case, w, false);
        match sf {
            SubFrame::Constant(c) => {
                check_component(rep, local, &format!("{origin}:constant"), c, case, w, false);
            }
            SubFrame::Verbatim(c) => {
                check_component(rep, local, &format!("{origin}:verbatim"), c, case, w, false);
            }
            SubFrame::FixedLpc(c) => {
                check_component(rep, local, &format!("{origin}:fixed"), c, case, w, false);
                check_component(rep, local, &format!("{origin}:residual"), c.residual(), case, w, false);
            }
            SubFrame::Lpc(c) => {
                check_component(rep, local, &format!("{origin}:lpc"), c, case, w, false);
                check_component(rep, local, &format!("{origin}:residual"), c.residual(), case, w, false);
            }
        }
    }
}

fn check_stream(rep: &Report, local: &mut Local, origin: &str, s: &Stream, case: &dyn Fn() -> Value, w: u64) {
    check_component(rep, local, &format!("{origin}:stream"), s, case, w, true);
    check_component(rep, local, &format!("{origin}:stream_info"), s.stream_info(), case, w, true);
    for i in 0..s.frame_count() {
        let fr = s.frame(i).unwrap();
        check_frame(rep, local, origin, fr, case, w);
        // after precomputation the frame must report and write the same bits
        let mut pre = fr.clone();
        pre.precompute_bitstream();
        check_frame(rep, local, &format!("{origin}+precomputed"), &pre, case, w);
        let a = panicx::catch(|| fr.count_bits());
        let b = panicx::catch(|| pre.count_bits());
        if let (Ok(a), Ok(b)) = (a, b) {
            if a != b {
                rep.violation("precompute_changes_count", &format!("{origin}: frame {i} reports {a} bits before and {b} bits after precompute_bitstream"), case(), w);
            }
        }
    }
}

fn check_case(rep: &Report, case: &Case, labels: &[String], local: &mut Local, thorough: bool) {
    let samples = case.input.samples();
    local.evals += 1;
    for l in labels {
        local.dim(l);
    }
    let cj = || case.json();
    let w = case.weight();
    for mode in [Mode::St, Mode::Mt] {
        if mode == Mode::Mt && !subject::mt_in_scope(thorough, labels) {
            continue;
        }
        let s = match subject::encode(case, &samples, mode) {
            Ok(s) => s,
            Err(e) => {
                local.outcome(&format!("{}:fail:{}", mode.name(), e.class()));
                rep.violation_x(mode == Mode::Mt, &format!("encode_fail|{}", e.class()), &format!("{}: {}", mode.name(), e.describe()), case.json(), w);
                continue;
            }
        };
        check_stream(rep, local, &format!("enc_{}", mode.name()), &s, &cj, w);
        if s.frame_count() > 0 {
            local.nontrivial.insert(case.id());
        }
        if mode == Mode::St {
            // the same stream as returned by the parser
            match subject::stream_bytes(&s) {
                Ok(bytes) => {
                    let r = panicx::catch(|| {
                        flacenc::component::parser::stream::<nom::error::Error<&[u8]>>(&bytes).map(|(_, s)| s).map_err(|e| format!("{e:?}").chars().take(120).collect::<String>())
                    });
                    match r {
                        Ok(Ok(ps)) => check_stream(rep, local, "parsed", &ps, &cj, w),
                        // parser failures are C15's subject
                        Ok(Err(_)) | Err(_) => local.count("parser_failed_not_judged_here", 1),
                    }
                }
                Err(EncFail::TooBig(_)) => local.count("giant_streams_not_serialised", 1),
                Err(e) => rep.violation(&format!("encode_fail|{}", e.class()), &e.describe(), case.json(), w),
            }
        }
        local.outcome(&format!("{}:done", mode.name()));
    }
}

// ------------------------------------------------------------------------------------------------
// constructor grids

#[derive(Clone, Debug, serde::Serialize, serde::Deserialize)]
pub struct ResCase {
    pub order: usize,
    pub n: usize,
    pub warmup: usize,
    /// 0 = uniform p, 1 = alternating p / (14 - p)
    pub pmode: u8,
    pub p: u8,
    /// 0 all zero, 1 all one, 2 one entry just below the 2^32 switch, 3 one entry just above,
    /// 4 every entry 2^16 plus one entry 2^32-1 (true sum above 2^32), 5 entries whose u32 sum wraps to 0
    pub qpat: u8,
}

fn build_residual(rc: &ResCase) -> Result<Residual, String> {
    let nparts = 1usize << rc.order;
    let params: Vec<u8> = (0..nparts).map(|i| if rc.pmode == 1 && i % 2 == 1 { 14 - rc.p } else { rc.p }).collect();
    let plen = rc.n >> rc.order;
    let mut q = vec![0u32; rc.n];
    let mut r = vec![0u32; rc.n];
    for t in rc.warmup..rc.n {
        let p = params[(t / plen.max(1)).min(nparts - 1)];
        r[t] = (t as u32).wrapping_mul(2654435761) & ((1u32 << p) - 1);
        q[t] = match rc.qpat {
            0 => 0,
            1 | 6 | 7 => 1,
            4 => 1 << 16,
            5 => ((1u64 << 32) / rc.n as u64) as u32,
            _ => 0,
        };
    }
    // entries in warm-up positions (the constructor has to refuse them, or count what it writes): a
    // quotient with a zero remainder, a remainder with a zero quotient
    for t in 0..rc.warmup {
        match rc.qpat {
            6 => q[t] = 3,
            7 => r[t] = 1,
            _ => {}
        }
    }
    let last = rc.n - 1;
    let lim = (u32::MAX as usize / rc.n) as u32;
    match rc.qpat {
        2 => q[last] = lim.saturating_sub(1),
        3 => q[last] = lim + 1,
        4 => q[last] = u32::MAX,
        _ => {}
    }
    match panicx::catch(|| Residual::new(rc.order, rc.n, rc.warmup, &params, &q, &r)) {
        Ok(Ok(x)) => Ok(x),
        Ok(Err(e)) => Err(format!("rejected: {e:?}")),
        Err(p) => Err(format!("panic: {}", p.describe())),
    }
}

fn residual_grid(thorough: bool) -> Vec<ResCase> {
    let mut v = Vec::new();
    for &n in &[64usize, 192, 4096, 32767] {
        for order in 0..=6usize {
            if n % (1 << order) != 0 {
                continue;
            }
            // warm-ups longer than one partition are arguments the constructor has to refuse (or to count as
            // it writes them)
            for &warmup in &[0usize, 1, 4, 17, 24, 25] {
                if warmup > n || (warmup > (n >> order) && n > 192) {
                    continue;
                }
                for pmode in 0..2u8 {
                    for p in 0..=14u8 {
                        for qpat in 0..8u8 {
                            if qpat >= 6 && warmup == 0 {
                                continue;
                            }
                            if !thorough && qpat >= 2 && !(p == 0 || p == 7 || p == 14) {
                                continue;
                            }
                            v.push(ResCase { order, n, warmup, pmode, p, qpat });
                        }
                    }
                }
            }
        }
    }
    v
}

fn run_residual_grid(rep: &Arc<Report>, thorough: bool, only: Option<ResCase>) {
    let grid = match only {
        Some(c) => vec![c],
        None => residual_grid(thorough),
    };
    let n = grid.len();
    let chunk = 8;
    par_for(
        rep,
        (n + chunk - 1) / chunk,
        Duration::from_secs(600),
        |i| json!({"residual_new": grid[i * chunk]}),
        |i, local| {
            for rc in &grid[i * chunk..((i + 1) * chunk).min(n)] {
                local.evals += 1;
                let cj = || json!({"residual_new": rc});
                match build_residual(rc) {
                    Ok(res) => {
                        local.outcome("residual_new:constructed");
                        if check_component(rep, local, "ctor:residual", &res, &cj, rc.n as u64, false).is_some() && rc.qpat >= 2 {
                            local.nontrivial.insert(crate::universe::fnv(&format!("{rc:?}")));
                        }
                    }
                    // totality of constructors is C18's subject
                    Err(e) => local.outcome(&format!("residual_new:{}", e.chars().take(20).collect::<String>())),
                }
            }
        },
    );
    rep.add_rule("Residual::new grid: block size{64,192,4096,32767} x partition order 0..=6 (dividing) x warm-up{0,1,4,17,24,25} (also longer than a partition) x Rice parameter 0..=14 uniform/alternating x quotient patterns{all 0, all 1, one entry just below / just above the 2^32 SIMD-sum switch, true sum above 2^32, entries whose 32-bit sum wraps to zero, a quotient / a remainder in the warm-up positions (refused, or counted as written)}; giant residuals go to the counting sink only");
}

/// Components as the parser produces them from bytes nobody emitted: EVERY 3-byte input (2^24) followed by
/// a fixed tail to `parser::subframe`, for block sizes that the partition orders of the 4-bit field do and
/// do not divide; every accepted subframe must report exactly the bits it writes.
fn run_parsed_subframe_space(rep: &Arc<Report>, thorough: bool) {
    let params: Vec<(usize, usize)> = if thorough { vec![(100, 8), (16, 8), (33, 8), (2, 8), (24, 12), (100, 16), (7, 25)] } else { vec![(100, 8), (16, 8), (33, 8)] };
    let tails: [u8; 3] = [0xFF, 0x55, 0x00];
    let np = params.len();
    par_for(
        rep,
        np * 3 * 256,
        Duration::from_secs(900),
        |i| json!({"parsed_subframe_space": params[i / 768], "tail": tails[(i / 256) % 3], "byte0": i % 256}),
        |i, local| {
            let (bs, bps) = params[i / 768];
            let tail = tails[(i / 256) % 3];
            let mut buf = vec![tail; 3 + (bs * bps + 7) / 8 + 8];
            buf[0] = (i % 256) as u8;
            let mut accepted = 0u64;
            for b1 in 0..=255u8 {
                buf[1] = b1;
                for b2 in 0..=255u8 {
                    buf[2] = b2;
                    let r = panicx::catch(|| {
                        let mut p = flacenc::component::parser::subframe::<nom::error::Error<(&[u8], usize)>>(bs, bps);
                        p((&buf[..], 0usize)).ok().map(|(_, sf)| sf)
                    });
                    // a panic of the parser itself is C16's subject
                    if let Ok(Some(sf)) = r {
                        accepted += 1;
                        let b = buf.clone();
                        let cj = move || json!({"parsed_subframe_input": {"bs": bs, "bps": bps, "bytes": b}});
                        check_component(rep, local, "parsed:subframe_from_arbitrary_bytes", &sf, &cj, 1, false);
                    }
                }
            }
            local.evals += 65536;
            local.count("parsed_subframe_inputs", 65536);
            local.count("parsed_subframe_inputs_accepted", accepted);
        },
    );
    rep.add_rule("parser-produced components from bytes nobody emitted: every 3-byte input (2^24) x tails {FF.., 55.., 00..} to parser::subframe for (block size, width) in {(100,8),(16,8),(33,8)} (thorough: 7 pairs): each accepted subframe reports exactly the bits it writes (three sinks), and count_bits does not panic");
}

fn header_numbers() -> Vec<(bool, u64)> {
    let mut v = Vec::new();
    // every power of two (a wrong length formula may put its boundaries anywhere)
    for b in 1..=36u32 {
        let c = 1u64 << b;
        for n in [c - 2, c - 1, c, c + 1, c + 2] {
            if n <= u32::MAX as u64 {
                v.push((false, n));
            }
            v.push((true, n));
        }
    }
    for b in [0u32, 7, 11, 16, 21, 26, 31, 32, 36] {
        let c = if b == 0 { 0u64 } else { 1u64 << b };
        for d in 0..=64u64 {
            for n in [c.saturating_sub(d), c + d] {
                // values the format cannot carry (frame numbers >= 2^31, sample numbers >= 2^36)
                // are included: if the constructor accepts them the write is refused, and the
                // components written after them on the same thread must still be exact
                if n <= u32::MAX as u64 {
                    v.push((false, n));
                }
                v.push((true, n));
            }
        }
    }
    v.sort();
    v.dedup();
    // interleave refused and valid values (a stale scratch buffer shows on the next write)
    let (bad, good): (Vec<_>, Vec<_>) = v.into_iter().partition(|(var, n)| if *var { *n >= (1 << 36) } else { *n >= (1 << 31) });
    let mut out = Vec::new();
    let mut bi = bad.iter().cycle();
    for (i, g) in good.iter().enumerate() {
        if i % 5 == 0 && !bad.is_empty() {
            out.push(*bi.next().unwrap());
        }
        out.push(*g);
    }
    out
}

/// Residuals as only the parser can produce them: hand-written bit strings using the 5-bit
/// parameter method (RICE2) and parameters the constructors refuse.
fn run_parsed_rice2(rep: &Report, local: &mut Local) {
    use super::c11::BitStr;
    // (partition order, block size, warm-up): the small ones, and every high partition order of the 4-bit
    // field with blocks it divides (thousands of partitions: sums of parameters beyond 16 bits)
    let mut shapes: Vec<(usize, usize, usize)> = Vec::new();
    for po in 0..=2usize {
        for (bs, warmup) in [(16usize, 0usize), (64, 2), (32, 1)] {
            shapes.push((po, bs, warmup));
        }
    }
    for (po, bs) in [(8usize, 4096usize), (10, 1024), (12, 4096), (13, 8192), (13, 16384), (14, 16384), (14, 32768), (15, 32768)] {
        shapes.push((po, bs, 0));
    }
    for method in [0u64, 1] {
        for &(po, bs, warmup) in &shapes {
            for param in [0u64, 3, 14, 15, 16, 30] {
                if method == 0 && param > 14 {
                    continue;
                }
                {
                    let mut b = BitStr::default();
                    b.push(method, 2);
                    b.push(po as u64, 4);
                    let plen = bs >> po;
                    for part in 0..(1usize << po) {
                        b.push(param, if method == 0 { 4 } else { 5 });
                        for t in part * plen..(part + 1) * plen {
                            if t < warmup {
                                continue;
                            }
                            let q = (t % 3) as usize;
                            b.push_zeros(q);
                            b.push(1, 1);
                            b.push((t as u64).wrapping_mul(0x9E37_79B9) & ((1u64 << param) - 1), param as usize);
                        }
                    }
                    let nbits = b.len;
                    let bytes = b.bytes();
                    let cj = || json!({"parsed_residual": {"method": method, "partition_order": po, "parameter": param, "block_size": bs, "warmup": warmup}});
                    local.evals += 1;
                    let parsed = panicx::catch(|| {
                        flacenc::component::parser::residual::<((&[u8], usize), nom::error::ErrorKind)>(bs, warmup)((&bytes[..], 0)).map(|((rest, off), r)| (bytes.len() * 8 - (rest.len() * 8 - off), r)).map_err(|_| ())
                    });
                    match parsed {
                        Ok(Ok((used, r))) => {
                            if used != nbits {
                                local.outcome("parsed_residual:length_differs_not_judged_here");
                            }
                            if check_component(rep, local, "parsed:residual_handwritten", &r, &cj, (bs + po) as u64, false).is_some() {
                                local.nontrivial.insert(crate::universe::fnv(&cj().to_string()));
                            }
                        }
                        // what the parser refuses or panics on is C15/C16's subject
                        _ => local.outcome("parsed_residual:not_parsed"),
                    }
                }
            }
        }
    }
}

fn run_headers_and_metadata(rep: &Arc<Report>) {
    let nums = header_numbers();
    let mut local = Local::default();
    run_parsed_rice2(rep, &mut local);
    let specs: Vec<(usize, usize, usize, u8)> = vec![(192, 16, 44100, 1), (4096, 24, 96000, 2), (33, 8, 12345, 8), (256, 12, 65540, 3), (32767, 20, 1000, 1), (1000, 16, 95999, 2)];
    for (bs, bps, rate, ch) in &specs {
        for (variable, n) in &nums {
            for ca in [ChannelAssignment::Independent(*ch), ChannelAssignment::MidSide] {
                if matches!(ca, ChannelAssignment::MidSide) && *ch != 2 {
                    continue;
                }
                let off = if *variable { FrameOffset::StartSample(*n) } else { FrameOffset::Frame(*n as u32) };
                let cj = || json!({"frame_header_new": {"bs": bs, "bps": bps, "rate": rate, "ch": ch, "variable": variable, "n": n}});
                local.evals += 1;
                match panicx::catch(|| FrameHeader::new(*bs, ca.clone(), *bps, *rate, off)) {
                    Ok(Ok(h)) => {
                        // every fifth header is first written into a sink that refuses it (the constructors
                        // no longer let a value through whose write is refused by a range check): what a
                        // failed write leaves in the thread's scratch must not show in the next write
                        if local.evals % 5 == 0 {
                            let r = panicx::catch(|| {
                                let mut bad = crate::bitmodel::FailingSink::new(0, crate::bitmodel::Flavour::Full);
                                h.write(&mut bad).is_err()
                            });
                            match r {
                                Ok(true) => local.count("header_writes_into_a_refusing_sink", 1),
                                Ok(false) => rep.violation("ctor:frame_header|write_ok_into_refusing_sink", "a header write into a sink that fails on its first operation returned Ok", cj(), *n),
                                Err(p) => rep.violation(&format!("ctor:frame_header|{}", p.class()), &format!("a header write into a failing sink panicked: {}", p.describe()), cj(), *n),
                            }
                        }
                        if check_component(rep, &mut local, "ctor:frame_header", &h, &cj, *n, true).is_some() {
                            local.nontrivial.insert(crate::universe::fnv(&format!("{bs}/{bps}/{rate}/{ch}/{variable}/{n}")));
                        }
                        // the public setter switches between frame-number and sample-number mode (the encoder
                        // itself does so once per frame): the count must follow the active mode
                        for small in [3u64, 200] {
                            let mut h2 = h.clone();
                            let r = panicx::catch(std::panic::AssertUnwindSafe(|| {
                                h2.set_frame_offset(if *variable { FrameOffset::Frame(small as u32) } else { FrameOffset::StartSample(small) });
                            }));
                            if r.is_ok() {
                                let cj2 = || json!({"frame_header_new_then_set_offset": {"bs": bs, "bps": bps, "rate": rate, "ch": ch, "variable": variable, "n": n, "then": small}});
                                check_component(rep, &mut local, "setter:frame_header", &h2, &cj2, *n, true);
                                // and back
                                let mut h3 = h2.clone();
                                if panicx::catch(std::panic::AssertUnwindSafe(|| h3.set_frame_offset(off))).is_ok() && (*variable && *n < (1 << 36) || !*variable && *n < (1 << 31)) {
                                    check_component(rep, &mut local, "setter:frame_header", &h3, &cj2, *n, true);
                                }
                            }
                        }
                    }
                    _ => local.outcome("frame_header_new:rejected_or_panicked"),
                }
            }
        }
    }
    // metadata blocks of unknown type, alone and inside a stream
    for tag in [1u8, 2, 126] {
        for size in [0usize, 1, 255, 65536] {
            let data: Vec<u8> = (0..size).map(|i| (i * 7 + 3) as u8).collect();
            let cj = || json!({"metadata_unknown": {"tag": tag, "size": size}});
            local.evals += 1;
            if let Ok(Ok(m)) = panicx::catch(|| MetadataBlockData::new_unknown(tag, &data)) {
                check_component(rep, &mut local, "ctor:metadata_block_data", &m, &cj, size as u64, true);
                if let Ok(Ok(mut s)) = panicx::catch(|| Stream::new(44100, 2, 16)) {
                    s.add_metadata_block(m.clone());
                    s.add_metadata_block(m);
                    check_component(rep, &mut local, "ctor:stream_with_metadata", &s, &cj, size as u64, true);
                }
            }
        }
    }
    rep.merge(local);
    rep.add_rule("hand-written residual bit strings (4-bit and 5-bit parameter methods, parameters up to 30, partition orders 0..=2 and 8..=15 with up to 32768 partitions) through parser::residual; FrameHeader::new over Frame(n)/StartSample(n) at every power of two +-2 and within +-64 of every coded-length boundary (2^7..2^31 / 2^36) x 6 block-size/width/rate/channel specs; MetadataBlockData::new_unknown tags{1,2,126} x sizes{0,1,255,65536}, alone and in a stream");
}

pub fn run(args: &Args, rep: &Arc<Report>) {
    let thorough = args.tier == "thorough";
    if let Some(p) = &args.replay {
        let s = std::fs::read_to_string(p).unwrap_or_default();
        let v: Value = serde_json::from_str(&s).unwrap_or(Value::Null);
        let c = v.get("case").cloned().unwrap_or(v);
        if let Some(rc) = c.get("residual_new") {
            let rc: ResCase = serde_json::from_value(rc.clone()).expect("bad residual_new replay");
            run_residual_grid(rep, true, Some(rc));
            rep.set_rule("replay of one Residual::new case");
            return;
        }
        if let Some(pi) = c.get("parsed_subframe_input") {
            let (bs, bps) = (pi["bs"].as_u64().unwrap() as usize, pi["bps"].as_u64().unwrap() as usize);
            let buf: Vec<u8> = pi["bytes"].as_array().unwrap().iter().map(|x| x.as_u64().unwrap() as u8).collect();
            let mut local = Local::default();
            if let Ok(Some(sf)) = panicx::catch(|| {
                let mut p = flacenc::component::parser::subframe::<nom::error::Error<(&[u8], usize)>>(bs, bps);
                p((&buf[..], 0usize)).ok().map(|(_, sf)| sf)
            }) {
                let cj = || c.clone();
                check_component(rep, &mut local, "parsed:subframe_from_arbitrary_bytes", &sf, &cj, 1, false);
            }
            rep.merge(local);
            rep.set_rule("replay of one parsed subframe input");
            return;
        }
        if c.get("frame_header_new").is_some() || c.get("frame_header_new_then_set_offset").is_some() || c.get("metadata_unknown").is_some() || c.get("parsed_residual").is_some() {
            run_headers_and_metadata(rep);
            rep.set_rule("replay: constructor grids re-run");
            return;
        }
    }
    let groups = if args.replay.is_some() {
        vec![]
    } else if thorough {
        vec![ustream::g9(&[64, 192, 576, 4096]), ustream::gn()]
    } else {
        vec![ustream::g9(&[192]), ustream::gn()]
    };
    let d = if thorough { 3 } else { 2 };
    drive(args, rep, d, true, groups, |case, labels, local| {
        if rep.want_sample() {
            rep.sample(case.json());
        }
        check_case(rep, case, labels, local, thorough);
    });
    if args.replay.is_none() {
        run_residual_grid(rep, thorough, None);
        run_parsed_subframe_space(rep, thorough);
        run_headers_and_metadata(rep);
    }
    rep.add_rule("every Stream, StreamInfo, Frame (before and after precompute_bitstream), FrameHeader, ChannelAssignment, SubFrame, Constant/Verbatim/FixedLpc/Lpc and Residual reachable through the public accessors of every encoded stream (ST; MT where in scope) and of the same stream returned by parser::stream: count_bits() == bits received by MemSink<u8> (length reported, bytes stored, content equal to the word sink's export) == MemSink<u64> == a counting sink; frames, headers and streams are whole bytes; non-trivial = a stream with at least one frame");
}
