//! C01 - lossless round trip through two independent decoders (claxon and strictflac).
use super::ustream::{self, drive};
use crate::report::{Local, Report};
use crate::strictflac::{self, SubKind};
use crate::subject::{self, Mode};
use crate::universe::Case;
use crate::Args;
use std::sync::Arc;

pub const MODES: [Mode; 3] = [Mode::St, Mode::Mt, Mode::Frame];

pub fn check_case(rep: &Report, case: &Case, labels: &[String], local: &mut Local, thorough: bool) {
    let samples = case.input.samples();
    local.evals += 1;
    for l in labels {
        local.dim(l);
    }
    let mut st_bytes: Option<Vec<u8>> = None;
    for mode in MODES {
        if mode == Mode::Mt && !subject::mt_in_scope(thorough, labels) {
            continue;
        }
        let (_, bytes) = match subject::encode_bytes(case, &samples, mode) {
            Ok(x) => x,
            Err(subject::EncFail::TooBig(_)) => {
                // size defects are C09's subject; a stream that is not serialised cannot be judged here
                local.outcome(&format!("{}:skipped_giant_stream", mode.name()));
                local.count("giant_streams_not_serialised", 1);
                continue;
            }
            Err(e) => {
                local.outcome(&format!("{}:fail:{}", mode.name(), e.class()));
                rep.violation_x(
                    mode == Mode::Mt,
                    &format!("encode_fail|{}", e.class()),
                    &format!("{} encode failed: {}", mode.name(), e.describe()),
                    case.json(),
                    case.weight(),
                );
                continue;
            }
        };
        // identical bytes were already decoded
        if let Some(b) = &st_bytes {
            if *b == bytes {
                local.outcome(&format!("{}:same_bytes_as_st", mode.name()));
                continue;
            }
        }
        let ok = check_bytes(rep, case, &samples, &bytes, mode, local);
        local.outcome(&format!("{}:{}", mode.name(), if ok { "ok" } else { "violation" }));
        if mode == Mode::St {
            st_bytes = Some(bytes);
        }
    }
}

fn check_bytes(rep: &Report, case: &Case, samples: &[i32], bytes: &[u8], mode: Mode, local: &mut Local) -> bool {
    let inp = &case.input;
    let mut ok = true;
    // decoder 1: strictflac (tolerant of STREAMINFO bound fields: those belong to C04)
    let strict = strictflac::parse(bytes);
    match &strict {
        Err(e) => {
            ok = false;
            rep.violation_x(
                mode == Mode::Mt,
                &format!("strict_reject|{}", strictflac::clause(e)),
                &format!("{}: reference decoder cannot decode the stream: {e}", mode.name()),
                case.json(),
                case.weight(),
            );
        }
        Ok(f) => {
            if f.samples != samples {
                ok = false;
                let at = f.samples.iter().zip(samples.iter()).position(|(a, b)| a != b);
                rep.violation_x(
                mode == Mode::Mt,
                    "samples_differ|strictflac",
                    &format!(
                        "{}: decoded samples differ from the input (decoded {} values, input {}, first difference at {:?})",
                        mode.name(),
                        f.samples.len(),
                        samples.len(),
                        at
                    ),
                    case.json(),
                    case.weight(),
                );
            }
            if f.info.rate != inp.rate || f.info.channels != inp.ch as u32 || f.info.bps != inp.bps as u32 {
                ok = false;
                rep.violation_x(
                mode == Mode::Mt,
                    "format_fields|strictflac",
                    &format!(
                        "{}: stream states rate={} ch={} bps={}, input has rate={} ch={} bps={}",
                        mode.name(),
                        f.info.rate,
                        f.info.channels,
                        f.info.bps,
                        inp.rate,
                        inp.ch,
                        inp.bps
                    ),
                    case.json(),
                    case.weight(),
                );
            }
            // non-triviality bookkeeping
            let mut predicted = false;
            for fr in &f.frames {
                if fr.ch_code >= 8 {
                    local.count("frames_with_side_channel", 1);
                }
                for sf in &fr.subframes {
                    match sf.kind {
                        SubKind::Fixed(_) => predicted = true,
                        SubKind::Lpc(_) => {
                            predicted = true;
                            let maxabs = sf.samples.iter().map(|v| v.unsigned_abs()).max().unwrap_or(0);
                            let sumabs: u64 = sf.coefs.iter().map(|c| c.unsigned_abs() as u64).sum();
                            if maxabs.saturating_mul(sumabs) >= i32::MAX as u64 {
                                local.count("lpc_subframes_on_i64_path", 1);
                            }
                        }
                        _ => {}
                    }
                }
            }
            if predicted {
                local.nontrivial.insert(case.id());
            }
            if inp.tail > 0 && inp.tail < 16 {
                local.count("cases_with_tail_below_16", 1);
            }
        }
    }
    // decoder 2: claxon
    match subject::claxon_decode(bytes) {
        Err(e) => {
            ok = false;
            let reason: String = e.chars().filter(|c| !c.is_ascii_digit()).take(60).collect();
            rep.violation_x(
                mode == Mode::Mt,
                &format!("claxon_reject|{reason}"),
                &format!("{}: claxon cannot decode the stream: {e}", mode.name()),
                case.json(),
                case.weight(),
            );
        }
        Ok(c) => {
            if c.samples != samples {
                ok = false;
                rep.violation_x(
                mode == Mode::Mt,
                    "samples_differ|claxon",
                    &format!("{}: claxon decodes {} values, input has {}", mode.name(), c.samples.len(), samples.len()),
                    case.json(),
                    case.weight(),
                );
            }
            if c.rate != inp.rate || c.channels != inp.ch as u32 || c.bps != inp.bps as u32 {
                ok = false;
                rep.violation_x(
                mode == Mode::Mt,
                    "format_fields|claxon",
                    &format!("{}: claxon reports rate={} ch={} bps={}", mode.name(), c.rate, c.channels, c.bps),
                    case.json(),
                    case.weight(),
                );
            }
            if let Ok(f) = &strict {
                if f.samples != c.samples && f.samples == samples {
                    // the two reference decoders disagree although one matches the input
                    local.count("decoder_disagreements", 1);
                }
            }
        }
    }
    ok
}

pub fn run(args: &Args, rep: &Arc<Report>) {
    let thorough = args.tier == "thorough";
    let groups = if args.replay.is_some() {
        vec![]
    } else if thorough {
        vec![ustream::g1(&[0, 1, 2, 5]), ustream::gs(&[1, 2]), ustream::gl(), ustream::gw()]
    } else {
        vec![ustream::g1(&[2]), ustream::gs(&[2]), ustream::gl(), ustream::gw()]
    };
    let d = if thorough { 3 } else { 2 };
    drive(args, rep, d, true, groups, |case, labels, local| {
        if rep.want_sample() {
            rep.sample(case.json());
        }
        check_case(rep, case, labels, local, thorough);
    });
    rep.add_rule(
        "each case is encoded three ways (single-thread, multi-thread with real threads, frame by frame) and must decode to exactly the input with claxon 0.4.3 and with the RFC 9639 reference decoder; non-trivial = at least one fixed/LPC subframe in the stream",
    );
}
