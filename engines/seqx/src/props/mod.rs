pub mod c01;
pub mod c02;
pub mod c03;
pub mod c08;
pub mod c15;
pub mod c16;
pub mod c17;
pub mod c18;
pub mod c19;
pub mod c04;
pub mod c05;
pub mod c06;
pub mod c07;
pub mod c09;
pub mod c10;
pub mod c11;
pub mod c12;
pub mod c13;
pub mod c14;
pub mod ustream;

use crate::report::Report;
use crate::Args;
use std::sync::Arc;

pub fn dispatch(args: &Args, rep: &Arc<Report>) -> bool {
    match args.prop.to_lowercase().as_str() {
        "c01" => c01::run(args, rep),
        "c02" => c02::run(args, rep),
        "c03" => c03::run(args, rep),
        "c05" => c05::run(args, rep),
        "c06" => c06::run(args, rep),
        "c07" => c07::run(args, rep),
        "c08" => c08::run(args, rep),
        "c14" => c14::run(args, rep),
        "c15" => c15::run(args, rep),
        "c04" => c04::run(args, rep),
        "c09" => c09::run(args, rep),
        "c10" => c10::run(args, rep),
        "c11" => c11::run(args, rep),
        "c12" => c12::run(args, rep),
        "c13" => c13::run(args, rep),
        "c16" => c16::run(args, rep),
        "c17" => c17::run(args, rep),
        "c18" => c18::run(args, rep),
        "c19" => c19::run(args, rep),
        "dump" => dump(args),
        _ => return false,
    }
    true
}


/// Debug aid: prints the subframe facts of the stream encoded for a replay case.
fn dump(args: &Args) {
    let case = ustream::load_replay_case(args.replay.as_ref().expect("dump needs --replay"));
    let samples = case.input.samples();
    match crate::subject::encode_bytes(&case, &samples, crate::subject::Mode::St) {
        Err(e) => println!("encode failed: {}", e.describe()),
        Ok((_, bytes)) => {
            println!("{} bytes", bytes.len());
            match crate::strictflac::parse(&bytes) {
                Err(e) => println!("strictflac: {e}"),
                Ok(f) => {
                    println!("issues: {:?}", f.issues);
                    for (i, fr) in f.frames.iter().enumerate() {
                        for (c, sf) in fr.subframes.iter().enumerate() {
                            println!("frame {i} ch {c} n={} {:?} prec={} shift={} coefs={:?} po={} params={:?} res[..6]={:?}", fr.block_size, sf.kind, sf.precision, sf.shift, sf.coefs, sf.part_order, sf.rice_params, &sf.residuals[..sf.residuals.len().min(6)]);
                        }
                    }
                }
            }
            match crate::subject::claxon_decode(&bytes) {
                Ok(c) => println!("claxon ok, equal to input: {}", c.samples == samples),
                Err(e) => println!("claxon: {e}"),
            }
        }
    }
}
