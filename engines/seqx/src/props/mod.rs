pub mod c01;
pub mod c02;
pub mod c03;
pub mod c08;
pub mod c15;
pub mod c04;
pub mod c05;
pub mod c09;
pub mod c11;
pub mod c12;
pub mod c13;
pub mod c14;
pub mod ustream;

use crate::report::Report;
use crate::Args;
use std::sync::Arc;

pub fn dispatch(args: &Args, rep: &Arc<Report>) -> bool {
    match args.prop.to_lowercase().as_str() {
        "c01" => c01::run(args, rep),
        "c02" => c02::run(args, rep),
        "c03" => c03::run(args, rep),
        "c05" => c05::run(args, rep),
        "c08" => c08::run(args, rep),
        "c14" => c14::run(args, rep),
        "c15" => c15::run(args, rep),
        "c04" => c04::run(args, rep),
        "c09" => c09::run(args, rep),
        "c11" => c11::run(args, rep),
        "c12" => c12::run(args, rep),
        "c13" => c13::run(args, rep),
        _ => return false,
    }
    true
}
