//! C12 - a failing user sink yields an error, not a panic: the sink fails on its k-th operation,
//! for EVERY k, for streams / frames / headers / subframes / residuals / metadata, three sink
//! flavours; accepted bits must be a prefix of the correct bit string.
use crate::bitmodel::{FailingSink, Flavour, MinimalFailing, ModelSink};
use crate::report::{par_for, Local, Report};
use crate::subject::{self, Mode};
use crate::universe::{self, Case};
use crate::{panicx, Args};
use flacenc::component::{BitRepr, MetadataBlockData, Stream, SubFrame};
use flacenc::error::OutputError;
use serde::{Deserialize, Serialize};
use serde_json::{json, Value};
use std::sync::Arc;
use std::time::Duration;

#[derive(Clone, Debug, Serialize, Deserialize)]
pub struct Target {
    pub case: Case,
    /// "stream", "stream_precomputed", "stream_with_metadata", "frame", "frame_precomputed",
    /// "frame_header", "subframe", "residual", "stream_info", "metadata"
    pub what: String,
    pub frame: usize,
    pub ch: usize,
}

fn corpus() -> Vec<Case> {
    let mut v = Vec::new();
    // all subframe types in 1, 2 and 8 channels, 2-3 frames
    for (b, ch, atoms, full, tail) in [
        (0usize, 1u8, [26u8, 0, 22, 13], 2u8, 9u32),
        (1, 2, [26, 13, 23, 20], 2, 17),
        (2, 2, [22, 21, 0, 24], 1, 15),
        (4, 8, [26, 16, 0, 22], 1, 5),
        (5, 2, [13, 22, 26, 17], 2, 0),
    ] {
        let mut c = universe::decode(&universe::base_points()[b]);
        c.input.ch = ch;
        c.input.atoms = atoms;
        c.input.full = full.into();
        c.input.tail = tail;
        c.input.bs = 64.min(c.input.bs);
        v.push(c);
    }
    // isolated full-scale clicks in silence, 8 and 12 bits: residuals whose unary codes are longer than
    // 64 zeros (several calls of the provided write_zeros per code)
    for (bps, ch) in [(8u8, 1u8), (12, 2)] {
        let mut c = universe::decode(&universe::base_points()[0]);
        c.input.bps = bps;
        c.input.ch = ch;
        c.input.atoms = [23, 23, 7, 23];
        c.input.full = 2;
        c.input.tail = 40;
        c.input.bs = 64;
        v.push(c);
    }
    // residuals with several Rice partitions (noise gated every 64 samples, a quiet stretch before noise):
    // a refused code word in a partition that is not the last one
    {
        let mut c = universe::decode(&universe::base_points()[0]);
        c.input.bps = 16;
        c.input.bs = 256;
        c.input.atoms = [24, 30, 25, 24];
        c.input.full = 2;
        c.input.tail = 0;
        v.push(c);
    }
    // a frame above 16 KiB (whole-stream, frame and header targets only): scratch buffers that are
    // treated differently once they have grown
    {
        let mut c = universe::decode(&universe::base_points()[2]);
        c.input.bs = 4096;
        c.input.atoms = [22, 22, 22, 22];
        c.input.full = 1;
        c.input.tail = 0;
        v.push(c);
    }
    v
}

fn build_stream(t: &Target) -> Option<Stream> {
    let samples = t.case.input.samples();
    let s = subject::encode(&t.case, &samples, Mode::St).ok()?;
    match t.what.as_str() {
        "stream_precomputed" => {
            let mut out = Stream::new(t.case.input.rate as usize, t.case.input.ch as usize, t.case.input.bps as usize).ok()?;
            for i in 0..s.frame_count() {
                let mut f = s.frame(i)?.clone();
                f.precompute_bitstream();
                out.add_frame(f);
            }
            Some(out)
        }
        "stream_with_metadata" => {
            let mut s = s;
            s.add_metadata_block(MetadataBlockData::new_unknown(2, &[1, 2, 3, 4, 5]).ok()?);
            Some(s)
        }
        _ => Some(s),
    }
}

/// Writes `c` into failing sinks for every k; returns the number of operations of a full write.
fn sweep<C: BitRepr>(rep: &Report, local: &mut Local, c: &C, t: &Target) {
    // reference bit string
    let reference = {
        let mut m = ModelSink::default();
        match panicx::catch(|| c.write(&mut m).map_err(|e| format!("{e:?}"))) {
            Ok(Ok(())) => m.bits,
            _ => {
                local.outcome("reference_write_failed");
                return;
            }
        }
    };
    for flavour in [Flavour::Minimal, Flavour::Full, Flavour::BytesOnly, Flavour::Transient, Flavour::MinimalTransient] {
        // number of operations of a full write
        let n_ops = match flavour {
            Flavour::Minimal | Flavour::MinimalTransient => {
                let mut s = MinimalFailing(FailingSink::new(usize::MAX, flavour));
                let _ = panicx::catch(|| c.write(&mut s).is_ok());
                s.0.ops
            }
            _ => {
                let mut s = FailingSink::new(usize::MAX, flavour);
                let _ = panicx::catch(|| c.write(&mut s).is_ok());
                s.ops
            }
        };
        local.count(&format!("sink_operations_{flavour:?}"), n_ops as u64);
        for k in 0..n_ops {
            local.evals += 1;
            let tj = || json!({"failing_sink": {"target": t, "flavour": format!("{flavour:?}"), "k": k}});
            let w = (t.case.weight() * 10 + k as u64).min(u64::MAX / 2);
            // (write result as a class string, accepted bits, calls after the failure)
            let (res, accepted, after): (Result<Result<(), String>, panicx::PanicRec>, Vec<bool>, usize) = match flavour {
                Flavour::Minimal | Flavour::MinimalTransient => {
                    let mut s = MinimalFailing(FailingSink::new(k, flavour));
                    let r = panicx::catch(|| classify(c.write(&mut s)));
                    if let Some(cv) = &s.0.contract_violation {
                        local.outcome("sink_contract_broken");
                        rep.violation_conclusive(&format!("sink_contract|{}|{flavour:?}", t.what), &format!("{}: after the sink failed on operation {k} of {n_ops} ({flavour:?}) the library called it outside the trait's contract: {cv}", t.what), tj(), w);
                        continue;
                    }
                    (r, s.0.inner.bits, s.0.calls_after_failure)
                }
                _ => {
                    let mut s = FailingSink::new(k, flavour);
                    let r = panicx::catch(|| classify(c.write(&mut s)));
                    (r, s.inner.bits, s.calls_after_failure)
                }
            };
            let kind = &t.what;
            match res {
                Err(p) => {
                    local.outcome("panic");
                    rep.violation(&p.class(), &format!("{kind}: sink failing on operation {k} of {n_ops} ({flavour:?} flavour) makes write panic: {}", p.describe()), tj(), w);
                    continue;
                }
                Ok(Ok(())) => {
                    local.outcome("ok_returned");
                    rep.violation_conclusive(&format!("error_swallowed|{kind}|{flavour:?}"), &format!("{kind}: sink failed on operation {k} of {n_ops} ({flavour:?}) but write returned Ok"), tj(), w);
                    continue;
                }
                Ok(Err(e)) => {
                    if e != "sink" {
                        local.outcome("wrong_error");
                        rep.violation_conclusive(&format!("wrong_error|{kind}|{flavour:?}"), &format!("{kind}: sink failed on operation {k} ({flavour:?}) but write returned {e} instead of the sink's error"), tj(), w);
                        continue;
                    }
                }
            }
            if accepted.len() > reference.len() || accepted[..] != reference[..accepted.len()] {
                local.outcome("not_a_prefix");
                rep.violation_conclusive(&format!("accepted_bits_not_prefix|{kind}|{flavour:?}"), &format!("{kind}: bits accepted before the failure at operation {k} ({} bits) are not a prefix of the correct bit string ({} bits)", accepted.len(), reference.len()), tj(), w);
                continue;
            }
            if after > 0 {
                local.count("sink_called_again_after_failure", after as u64);
            }
            local.outcome("err_sink");
        }
    }
}

fn classify<S: flacenc::bitsink::BitSink>(r: Result<(), OutputError<S>>) -> Result<(), String>
where
    S::Error: std::error::Error,
{
    match r {
        Ok(()) => Ok(()),
        Err(OutputError::Sink(_)) => Err("sink".into()),
        Err(e) => Err(format!("{e:?}")),
    }
}

fn run_target(rep: &Report, local: &mut Local, t: &Target) {
    let Some(s) = build_stream(t) else {
        local.outcome("target_not_buildable");
        return;
    };
    match t.what.as_str() {
        "stream" | "stream_precomputed" | "stream_with_metadata" => sweep(rep, local, &s, t),
        "stream_info" => sweep(rep, local, s.stream_info(), t),
        "metadata" => {
            if let Ok(m) = MetadataBlockData::new_unknown(5, &[9u8; 40]) {
                sweep(rep, local, &m, t);
            }
        }
        _ => {
            let Some(fr) = s.frame(t.frame) else { return };
            match t.what.as_str() {
                "frame" => sweep(rep, local, fr, t),
                "frame_precomputed" => {
                    let mut f = fr.clone();
                    f.precompute_bitstream();
                    sweep(rep, local, &f, t);
                }
                "frame_header" => sweep(rep, local, fr.header(), t),
                "subframe" => {
                    if let Some(sf) = fr.subframe(t.ch) {
                        sweep(rep, local, sf, t);
                    }
                }
                "residual" => match fr.subframe(t.ch) {
                    Some(SubFrame::FixedLpc(f)) => sweep(rep, local, f.residual(), t),
                    Some(SubFrame::Lpc(f)) => sweep(rep, local, f.residual(), t),
                    _ => {}
                },
                _ => {}
            }
        }
    }
    local.nontrivial.insert(universe::fnv(&serde_json::to_string(t).unwrap()));
}

static MULTI_PARTITION: std::sync::atomic::AtomicUsize = std::sync::atomic::AtomicUsize::new(0);

fn targets(thorough: bool) -> Vec<Target> {
    let mut v = Vec::new();
    let mut cases = corpus();
    if thorough {
        // every single-coordinate deviation of the universe base points with a small block size
        let uni = universe::Universe::new(1, false, true);
        for sh in &uni.shards {
            uni.for_each_in_shard(sh, |p| {
                let mut c = universe::decode(p);
                if c.input.bs <= 64 && c.input.ch <= 3 {
                    c.input.full = c.input.full.min(1);
                    cases.push(c);
                }
            });
        }
    }
    for case in cases {
        let samples = case.input.samples();
        let Ok(s) = subject::encode(&case, &samples, Mode::St) else { continue };
        for what in ["stream", "stream_precomputed", "stream_with_metadata", "stream_info", "metadata"] {
            v.push(Target { case: case.clone(), what: what.into(), frame: 0, ch: 0 });
        }
        for f in 0..s.frame_count() {
            for what in ["frame", "frame_precomputed", "frame_header"] {
                v.push(Target { case: case.clone(), what: what.into(), frame: f, ch: 0 });
            }
            if case.input.bs >= 4096 {
                continue;
            }
            for ch in 0..s.frame(f).unwrap().subframe_count() {
                match s.frame(f).unwrap().subframe(ch) {
                    Some(SubFrame::FixedLpc(x)) if x.residual().partition_order() > 0 => MULTI_PARTITION.fetch_add(1, std::sync::atomic::Ordering::SeqCst),
                    Some(SubFrame::Lpc(x)) if x.residual().partition_order() > 0 => MULTI_PARTITION.fetch_add(1, std::sync::atomic::Ordering::SeqCst),
                    _ => 0,
                };
                v.push(Target { case: case.clone(), what: "subframe".into(), frame: f, ch });
                v.push(Target { case: case.clone(), what: "residual".into(), frame: f, ch });
            }
        }
    }
    v
}

pub fn run(args: &Args, rep: &Arc<Report>) {
    if let Some(p) = &args.replay {
        let s = std::fs::read_to_string(p).unwrap_or_default();
        let v: Value = serde_json::from_str(&s).unwrap_or(Value::Null);
        let c = v.get("case").cloned().unwrap_or(v);
        let t: Target = serde_json::from_value(c["failing_sink"]["target"].clone()).expect("replay file holds no failing-sink target");
        let mut local = Local::default();
        run_target(rep, &mut local, &t);
        rep.merge(local);
        rep.set_rule("replay: every k for one recorded target");
        return;
    }
    let ts = targets(true);
    let n = ts.len();
    par_for(
        rep,
        n,
        Duration::from_secs(600),
        |i| json!({"failing_sink": {"target": ts[i]}}),
        |i, local| {
            if rep.want_sample() {
                rep.sample(json!({"failing_sink": {"target": ts[i], "k": "every k in 0..N"}}));
            }
            run_target(rep, local, &ts[i]);
        },
    );
    rep.extra("targets", json!(n));
    let mp = MULTI_PARTITION.load(std::sync::atomic::Ordering::SeqCst);
    rep.extra("residual_targets_with_several_partitions", json!(mp));
    if mp == 0 {
        rep.machinery_error("no residual target has more than one Rice partition");
    }
    rep.set_rule("targets (plus every single-coordinate deviation of the universe base points with block size <= 64 and <= 3 channels): 9 streams (1/2/8 channels, constant+verbatim+fixed+LPC subframes, 2-3 frames; two with isolated full-scale clicks, i.e. unary codes longer than 64 zeros; one with blocks of 256 samples whose residuals have several Rice partitions; one with a 24 KiB frame - stream, frame and header targets only) as whole streams (plain, with precomputed frames, with an extra metadata block), STREAMINFO, a metadata block, and every frame (plain/precomputed), frame header, subframe and residual of them; for each target and each of four sink flavours (required methods only / all methods / failing only in write_bytes_aligned / failing once and accepting again afterwards) the sink fails on operation k for EVERY k in 0..N (N = operations of a full write, measured); oracle: write returns Err(OutputError::Sink), no panic, the bits accepted before the failure are a prefix of the reference bit string; non-trivial = a target whose sweep ran");
}
