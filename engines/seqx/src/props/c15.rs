//! C15 - the parser inverts the writer: streams, single frames and single subframes.
use super::ustream::{self, drive};
use crate::report::{Local, Report};
use crate::subject::{self, EncFail, Mode};
use crate::universe::Case;
use crate::{panicx, Args};
use flacenc::bitsink::ByteSink;
use flacenc::component::{
    parser, BitRepr, ChannelAssignment, Decode, Frame, FrameHeader, FrameOffset, MetadataBlockData, Stream, StreamInfo, SubFrame,
};
use flacenc::error::Verify;
use serde_json::{json, Value};
use std::sync::Arc;

type NomErr<'a> = nom::error::Error<&'a [u8]>;

fn to_bytes<C: BitRepr>(c: &C) -> Result<(Vec<u8>, usize), String> {
    match panicx::catch(|| {
        let mut s = ByteSink::new();
        c.write(&mut s).map(|()| {
            let n = s.len();
            (s.into_inner(), n)
        }).map_err(|e| format!("{e:?}"))
    }) {
        Ok(r) => r,
        Err(p) => Err(format!("panic {}", p.describe())),
    }
}

/// Checks one frame through `parser::frame`.
pub fn check_frame(rep: &Report, local: &mut Local, fr: &Frame, info: &StreamInfo, expect: Option<&[i32]>, case: &dyn Fn() -> Value, w: u64, origin: &str) {
    local.count("frames_checked", 1);
    let (bytes, _) = match to_bytes(fr) {
        Ok(x) => x,
        Err(e) => {
            rep.violation("frame_write_failed", &format!("{origin}: Frame::write failed: {e}"), case(), w);
            return;
        }
    };
    let parsed = panicx::catch(|| parser::frame::<NomErr>(info, true)(&bytes).map(|(rest, f)| (rest.len(), f)).map_err(|e| format!("{e:?}").chars().take(160).collect::<String>()));
    let (rest, pf) = match parsed {
        Ok(Ok(x)) => x,
        Ok(Err(e)) => {
            rep.violation("frame_parse_error", &format!("{origin}: parser::frame rejects a frame the library serialised: {e}"), case(), w);
            return;
        }
        Err(p) => {
            rep.violation(&format!("frame_parse_{}", p.class()), &format!("{origin}: parser::frame panicked: {}", p.describe()), case(), w);
            return;
        }
    };
    if rest != 0 {
        rep.violation("frame_parse_leftover", &format!("{origin}: parser::frame left {rest} bytes unconsumed"), case(), w);
    }
    match panicx::catch(|| pf.verify()) {
        Ok(Ok(())) => {}
        Ok(Err(e)) => rep.violation("parsed_frame_verify", &format!("{origin}: parsed frame fails verify(): {e:?}"), case(), w),
        Err(p) => rep.violation(&format!("parsed_frame_verify_{}", p.class()), &format!("{origin}: verify panicked: {}", p.describe()), case(), w),
    }
    match to_bytes(&pf) {
        Ok((b2, _)) => {
            if b2 != bytes {
                rep.violation("frame_reserialise_differs", &format!("{origin}: parsed frame re-serialises to different bytes ({} vs {})", b2.len(), bytes.len()), case(), w);
            }
        }
        Err(e) => rep.violation("parsed_frame_write_failed", &format!("{origin}: parsed frame cannot be written: {e}"), case(), w),
    }
    if let Some(exp) = expect {
        match panicx::catch(|| pf.decode()) {
            Ok(d) => {
                if d != exp {
                    let at = d.iter().zip(exp.iter()).position(|(a, b)| a != b);
                    rep.violation("frame_decode_differs", &format!("{origin}: Decode::decode of the parsed frame differs from the input block (first difference at {at:?}, {} vs {} values)", d.len(), exp.len()), case(), w);
                }
            }
            Err(p) => rep.violation(&format!("frame_decode_{}", p.class()), &format!("{origin}: decode panicked: {}", p.describe()), case(), w),
        }
    }
    // subframes, one by one
    for ch in 0..fr.subframe_count() {
        let sf = fr.subframe(ch).unwrap();
        let bps = info.bits_per_sample() + usize::from(side_bit(fr.header().channel_assignment(), ch));
        check_subframe(rep, local, sf, fr.block_size(), bps, case, w, origin);
    }
}

fn side_bit(ca: &ChannelAssignment, ch: usize) -> bool {
    match ca {
        ChannelAssignment::Independent(_) => false,
        ChannelAssignment::LeftSide | ChannelAssignment::MidSide => ch == 1,
        ChannelAssignment::RightSide => ch == 0,
    }
}

pub fn check_subframe(rep: &Report, local: &mut Local, sf: &SubFrame, n: usize, bps: usize, case: &dyn Fn() -> Value, w: u64, origin: &str) {
    local.count("subframes_checked", 1);
    let (bytes, nbits) = match to_bytes(sf) {
        Ok(x) => x,
        Err(e) => {
            rep.violation("subframe_write_failed", &format!("{origin}: SubFrame::write failed: {e}"), case(), w);
            return;
        }
    };
    let kind = match sf {
        SubFrame::Constant(_) => "constant",
        SubFrame::Verbatim(_) => "verbatim",
        SubFrame::FixedLpc(_) => "fixed",
        SubFrame::Lpc(_) => "lpc",
    };
    local.count(&format!("subframes_{kind}"), 1);
    let parsed = panicx::catch(|| {
        parser::subframe::<((&[u8], usize), nom::error::ErrorKind)>(n, bps)((&bytes[..], 0))
            .map(|((rest, off), s)| (bytes.len() * 8 - (rest.len() * 8 - off), s))
            .map_err(|e| format!("{e:?}").chars().take(160).collect::<String>())
    });
    let (used, ps) = match parsed {
        Ok(Ok(x)) => x,
        Ok(Err(e)) => {
            rep.violation(&format!("subframe_parse_error|{kind}"), &format!("{origin}: parser::subframe rejects a {kind} subframe the library serialised: {e}"), case(), w);
            return;
        }
        Err(p) => {
            rep.violation(&format!("subframe_parse_{}", p.class()), &format!("{origin}: parser::subframe panicked: {}", p.describe()), case(), w);
            return;
        }
    };
    if used != nbits {
        rep.violation(&format!("subframe_parse_length|{kind}"), &format!("{origin}: parser::subframe consumed {used} of {nbits} bits"), case(), w);
    }
    match to_bytes(&ps) {
        Ok((b2, n2)) => {
            if b2 != bytes || n2 != nbits {
                rep.violation(&format!("subframe_reserialise_differs|{kind}"), &format!("{origin}: parsed {kind} subframe re-serialises differently"), case(), w);
            }
        }
        Err(e) => rep.violation("parsed_subframe_write_failed", &format!("{origin}: {e}"), case(), w),
    }
    match (panicx::catch(|| sf.decode()), panicx::catch(|| ps.decode())) {
        (Ok(a), Ok(b)) => {
            if a != b {
                rep.violation(&format!("subframe_decode_differs|{kind}"), &format!("{origin}: parsed {kind} subframe decodes to a different signal"), case(), w);
            }
        }
        (_, Err(p)) | (Err(p), _) => rep.violation(&format!("subframe_decode_{}", p.class()), &format!("{origin}: decode panicked: {}", p.describe()), case(), w),
    }
}

pub fn check_stream_bytes(rep: &Report, _local: &mut Local, bytes: &[u8], expect: Option<(&[i32], usize, usize)>, case: &dyn Fn() -> Value, w: u64, origin: &str) -> bool {
    let parsed = panicx::catch(|| parser::stream::<NomErr>(bytes).map(|(rest, s)| (rest.len(), s)).map_err(|e| format!("{e:?}").chars().take(160).collect::<String>()));
    let (rest, ps): (usize, Stream) = match parsed {
        Ok(Ok(x)) => x,
        Ok(Err(e)) => {
            rep.violation("stream_parse_error", &format!("{origin}: parser::stream rejects a stream the library emitted: {e}"), case(), w);
            return false;
        }
        Err(p) => {
            rep.violation(&format!("stream_parse_{}", p.class()), &format!("{origin}: parser::stream panicked: {}", p.describe()), case(), w);
            return false;
        }
    };
    let mut ok = true;
    if rest != 0 {
        ok = false;
        rep.violation("stream_parse_leftover", &format!("{origin}: parser::stream left {rest} bytes unconsumed"), case(), w);
    }
    match panicx::catch(|| ps.verify()) {
        Ok(Ok(())) => {}
        Ok(Err(e)) => {
            ok = false;
            rep.violation("parsed_stream_verify", &format!("{origin}: parsed stream fails verify(): {e:?}"), case(), w)
        }
        Err(p) => {
            ok = false;
            rep.violation(&format!("parsed_stream_verify_{}", p.class()), &format!("{origin}: verify panicked: {}", p.describe()), case(), w)
        }
    }
    match to_bytes(&ps) {
        Ok((b2, _)) => {
            if b2 != bytes {
                ok = false;
                let at = b2.iter().zip(bytes.iter()).position(|(a, b)| a != b);
                rep.violation("stream_reserialise_differs", &format!("{origin}: parsed stream re-serialises to different bytes ({} vs {}, first difference at {at:?})", b2.len(), bytes.len()), case(), w);
            }
        }
        Err(e) => {
            ok = false;
            rep.violation("parsed_stream_write_failed", &format!("{origin}: {e}"), case(), w)
        }
    }
    if let Some((samples, ch, bs)) = expect {
        let mut pos = 0usize;
        for i in 0..ps.frame_count() {
            let fr = ps.frame(i).unwrap();
            let end = (pos + bs * ch).min(samples.len());
            match panicx::catch(|| fr.decode()) {
                Ok(d) => {
                    if d != samples[pos..end] {
                        ok = false;
                        rep.violation("stream_decode_differs", &format!("{origin}: frame {i} of the parsed stream decodes to a signal different from the input block"), case(), w);
                        break;
                    }
                }
                Err(p) => {
                    ok = false;
                    rep.violation(&format!("frame_decode_{}", p.class()), &format!("{origin}: decode panicked: {}", p.describe()), case(), w);
                    break;
                }
            }
            pos = end;
        }
        if pos != samples.len() {
            ok = false;
            rep.violation("stream_decode_length", &format!("{origin}: parsed stream holds {pos} sample values, input has {}", samples.len()), case(), w);
        }
    }
    ok
}

fn check_case(rep: &Report, case: &Case, labels: &[String], local: &mut Local) {
    let samples = case.input.samples();
    local.evals += 1;
    for l in labels {
        local.dim(l);
    }
    let cj = || case.json();
    let w = case.weight();
    // a refused header (and, for every other case, frame) write precedes the serialisation on this thread
    subject::refused_writes(local.evals);
    let (stream, bytes) = match subject::encode_bytes(case, &samples, Mode::St) {
        Ok(x) => x,
        Err(EncFail::TooBig(_)) => {
            local.count("giant_streams_not_serialised", 1);
            return;
        }
        Err(e) => {
            rep.violation(&format!("encode_fail|{}", e.class()), &e.describe(), case.json(), w);
            return;
        }
    };
    let (ch, bs) = (case.input.ch as usize, case.input.bs as usize);
    let ok = check_stream_bytes(rep, local, &bytes, Some((&samples, ch, bs)), &cj, w, "stream");
    let mut pos = 0usize;
    let mut predicted = false;
    for i in 0..stream.frame_count() {
        let fr = stream.frame(i).unwrap();
        let end = (pos + bs * ch).min(samples.len());
        check_frame(rep, local, fr, stream.stream_info(), Some(&samples[pos..end]), &cj, w, &format!("frame {i}"));
        for c in 0..fr.subframe_count() {
            if matches!(fr.subframe(c), Some(SubFrame::FixedLpc(_) | SubFrame::Lpc(_))) {
                predicted = true;
            }
        }
        pos = end;
    }
    if predicted {
        local.nontrivial.insert(case.id());
    }
    local.outcome(if ok { "ok" } else { "violation" });
}

/// Frames built with public constructors over every header code class, and streams with extra
/// metadata blocks.
/// LPC subframes built with the public constructors whose *prediction* leaves the 32-bit range while
/// every residual and every sample stays inside its range (valid FLAC: only residuals are limited to
/// 32 bits). The encoder can emit such subframes for ill-conditioned blocks; here they are written
/// down directly. Signal: [x0, s1, 0, 0, ...] with |coef * x0| >> shift just beyond 2^31.
fn run_wide_predictions(rep: &Arc<Report>, local: &mut Local) {
    use flacenc::component::{Lpc, QuantizedParameters, Residual};
    // (coefficients, shift, warm-up samples, following samples)
    let specs: Vec<(Vec<i16>, i8, Vec<i32>, Vec<i32>)> = vec![
        (vec![16383], 0, vec![131_081], vec![20_000, 0, 0, -5]),
        (vec![-16384], 0, vec![131_073], vec![-20_000, 0, 0, 7]),
        (vec![16383, -16384], 0, vec![0, 131_081], vec![20_000, 0, 0, 0]),
        (vec![-16384, 1], 0, vec![0, 131_073], vec![-20_000, 0, 0, 0]),
        // a prediction far inside the range, as a control
        (vec![100], 0, vec![1000], vec![100_000, 0, 0, 0]),
    ];
    for (coefs, shift, warm, rest) in &specs {
        let bs = 16usize;
        let order = coefs.len();
        let mut x: Vec<i64> = warm.iter().map(|&v| v as i64).collect();
        for k in 0..bs - order {
            x.push(*rest.get(k).unwrap_or(&0) as i64);
        }
        // residuals by exact arithmetic
        let mut res = vec![0i64; bs];
        let mut wide = false;
        for t in order..bs {
            let mut acc = 0i64;
            for (j, c) in coefs.iter().enumerate() {
                acc += *c as i64 * x[t - 1 - j];
            }
            let pred = acc >> *shift;
            if pred > i32::MAX as i64 || pred < i32::MIN as i64 {
                wide = true;
            }
            res[t] = x[t] - pred;
            assert!(res[t] > i32::MIN as i64 && res[t] <= i32::MAX as i64, "harness: residual out of range");
        }
        let p = 14u32;
        let mut q = vec![0u32; bs];
        let mut r = vec![0u32; bs];
        for t in order..bs {
            let u: u64 = if res[t] >= 0 { (res[t] as u64) << 1 } else { (((-res[t]) as u64) << 1) - 1 };
            q[t] = (u >> p) as u32;
            r[t] = (u & ((1 << p) - 1)) as u32;
        }
        let cj = || json!({"constructed_lpc_subframe": {"coefficients": coefs, "shift": shift, "warm_up": warm, "then": rest}});
        local.evals += 1;
        let built = panicx::catch(|| -> Result<SubFrame, String> {
            let residual = Residual::new(0, bs, order, &[p as u8], &q, &r).map_err(|e| format!("{e:?}"))?;
            let qp = QuantizedParameters::new(coefs, order, *shift, 15).map_err(|e| format!("{e:?}"))?;
            Ok(Lpc::new(warm, qp, residual, 24).map_err(|e| format!("{e:?}"))?.into())
        });
        match built {
            Ok(Ok(sf)) => {
                if wide {
                    local.count("constructed_lpc_subframes_with_prediction_beyond_32_bits", 1);
                }
                check_subframe(rep, local, &sf, bs, 24, &cj, 1, "constructed LPC subframe");
                // the decoded signal must be the one the residuals were computed from
                if let Ok(d) = panicx::catch(|| sf.decode()) {
                    let want: Vec<i32> = x.iter().map(|&v| v as i32).collect();
                    if d != want {
                        rep.violation("subframe_decode_differs|lpc_wide_prediction", "constructed LPC subframe: Decode::decode does not return the signal the residuals were computed from (exact arithmetic)", cj(), 1);
                    }
                }
                local.nontrivial.insert(crate::universe::fnv(&format!("{coefs:?}{shift}{warm:?}")));
            }
            Ok(Err(e)) => local.outcome(&format!("constructed_lpc_rejected:{}", e.chars().take(40).collect::<String>())),
            Err(p) => rep.violation(&format!("constructed_lpc_{}", p.class()), &format!("constructing the LPC subframe panicked: {}", p.describe()), cj(), 1),
        }
    }
}

fn run_constructed(rep: &Arc<Report>) {
    let mut local = Local::default();
    run_wide_predictions(rep, &mut local);
    let mut numbers: Vec<u32> = vec![0, 1];
    for b in [7u32, 11, 16, 21, 26, 31] {
        let c = 1u64 << b;
        for d in 1..=8u64 {
            numbers.push((c - d) as u32);
            if c + d - 1 < (1 << 31) {
                numbers.push((c + d - 1) as u32);
            }
        }
    }
    for &bs in crate::universe::BLOCK_SIZES.iter().chain([16u32, 17, 2304, 8192, 512, 1024, 2048, 32768 - 1].iter()) {
        for &rate in crate::universe::RATES.iter() {
            for &(bps, ch) in &[(8usize, 1u8), (16, 2), (24, 2), (12, 3), (20, 8)] {
                let cas: Vec<ChannelAssignment> = if ch == 2 {
                    vec![ChannelAssignment::Independent(2), ChannelAssignment::LeftSide, ChannelAssignment::RightSide, ChannelAssignment::MidSide]
                } else {
                    vec![ChannelAssignment::Independent(ch)]
                };
                for ca in cas {
                    // numbers: all boundary values for one spec, two values otherwise
                    let nums: &[u32] = if bs == 192 && rate == 44100 { &numbers } else { &[0, 300] };
                    for &n in nums {
                        local.evals += 1;
                        let cj = || json!({"constructed_frame": {"bs": bs, "rate": rate, "bps": bps, "ch": ch, "assignment": format!("{ca:?}"), "n": n}});
                        let built = panicx::catch(|| -> Result<(Frame, StreamInfo, Vec<i32>), String> {
                            let hdr = FrameHeader::new(bs as usize, ca.clone(), bps, rate as usize, FrameOffset::Frame(n)).map_err(|e| format!("{e:?}"))?;
                            let mut subs: Vec<SubFrame> = Vec::new();
                            for c in 0..ch as usize {
                                let w = bps + usize::from(side_bit(&ca, c));
                                let v: i32 = if c % 2 == 0 { -(1i32 << (w - 1)) } else { (1i32 << (w - 1)) - 1 };
                                if c % 3 == 2 {
                                    let s: Vec<i32> = (0..bs as i32).map(|t| if t % 2 == 0 { v } else { -1 - v }).collect();
                                    subs.push(flacenc::component::Verbatim::new(&s, w).map_err(|e| format!("{e:?}"))?.into());
                                } else {
                                    subs.push(flacenc::component::Constant::new(bs as usize, v, w).map_err(|e| format!("{e:?}"))?.into());
                                }
                            }
                            let fr = Frame::new(hdr, subs.into_iter()).map_err(|e| format!("{e:?}"))?;
                            let info = StreamInfo::new(rate as usize, ch as usize, bps).map_err(|e| format!("{e:?}"))?;
                            let dec = fr.decode();
                            Ok((fr, info, dec))
                        });
                        match built {
                            Ok(Ok((fr, info, dec))) => {
                                check_frame(rep, &mut local, &fr, &info, Some(&dec), &cj, n as u64 + bs as u64, "constructed frame");
                                local.nontrivial.insert(crate::universe::fnv(&cj().to_string()));
                            }
                            Ok(Err(e)) => local.outcome(&format!("constructed_frame_rejected:{}", e.chars().take(40).collect::<String>())),
                            Err(p) => local.outcome(&format!("constructed_frame_{}", p.class())),
                        }
                    }
                }
            }
        }
    }
    // streams with extra metadata blocks
    let base = crate::universe::decode(&crate::universe::base_points()[1]);
    let samples = base.input.samples();
    if subject::encode(&base, &samples, Mode::St).is_ok() {
        for tags in [vec![1u8], vec![2, 126], vec![1, 2, 126]] {
            for size in [0usize, 1, 255, 65536] {
                local.evals += 1;
                let Ok(mut s) = subject::encode(&base, &samples, Mode::St) else { continue };
                for &t in &tags {
                    let data: Vec<u8> = (0..size).map(|i| (i * 13 + t as usize) as u8).collect();
                    s.add_metadata_block(MetadataBlockData::new_unknown(t, &data).unwrap());
                }
                let cj = || json!({"stream_with_metadata": {"tags": tags, "size": size}});
                if let Ok((bytes, _)) = to_bytes(&s) {
                    check_stream_bytes(rep, &mut local, &bytes, Some((&samples, base.input.ch as usize, base.input.bs as usize)), &cj, size as u64, "stream with extra metadata");
                    local.nontrivial.insert(crate::universe::fnv(&cj().to_string()));
                }
            }
        }
    }
    rep.merge(local);
    rep.add_rule("constructed LPC subframes whose prediction leaves the 32-bit range while residuals and samples stay inside theirs (4 + 1 control); constructed frames: block sizes (universe list + code-class representatives) x rate list x (bps,channels) x every channel assignment, frame numbers at every coded-length boundary for one spec; streams with 1-3 extra unknown metadata blocks (types 1,2,126; sizes 0,1,255,65536)");
}

pub fn run(args: &Args, rep: &Arc<Report>) {
    let thorough = args.tier == "thorough";
    if let Some(p) = &args.replay {
        let s = std::fs::read_to_string(p).unwrap_or_default();
        let v: Value = serde_json::from_str(&s).unwrap_or(Value::Null);
        let c = v.get("case").cloned().unwrap_or(v);
        if c.get("constructed_frame").is_some() || c.get("stream_with_metadata").is_some() || c.get("constructed_lpc_subframe").is_some() {
            run_constructed(rep);
            rep.set_rule("replay: constructed-frame grid re-run");
            return;
        }
    }
    let groups = if args.replay.is_some() {
        vec![]
    } else if thorough {
        vec![ustream::gh(), ustream::gs(&[1, 2]), ustream::g1(&[2]), ustream::gl()]
    } else {
        vec![ustream::gh(), ustream::gs(&[2]), ustream::gl()]
    };
    let d = if thorough { 3 } else { 2 };
    drive(args, rep, d, true, groups, |case, labels, local| {
        if rep.want_sample() {
            rep.sample(case.json());
        }
        check_case(rep, case, labels, local);
    });
    if args.replay.is_none() {
        run_constructed(rep);
    }
    rep.add_rule("every emitted stream (serialised on a thread on which a header / frame write has just been refused by its sink) through parser::stream, each of its frames through parser::frame (CRC checked) and each subframe through parser::subframe: all input consumed, verify() ok, re-serialised bytes identical, Decode::decode equals the input block; non-trivial = a stream with a fixed or LPC subframe");
}
