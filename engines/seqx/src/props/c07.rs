//! C07 - configuration verification is exact, and verified configurations never panic.
//!
//! All single- and two-field deviations of the configuration from three valid base points, each
//! field over {min-1, min, middle, max, max+1, extreme values}; oracle (a): `into_verified` accepts
//! iff every field is in its documented range (table below, written from the documentation, not
//! from the `Verify` impls); oracle (b): every accepted configuration encodes a probe corpus
//! without panicking and losslessly.
use crate::report::{par_for, Local, Report};
use crate::strictflac;
use crate::subject;
use crate::universe::{self, Case};
use crate::{panicx, Args};
use flacenc::config;
use flacenc::error::Verify;
use flacenc::source::MemSource;
use serde::{Deserialize, Serialize};
use serde_json::{json, Value};
use std::sync::Arc;
use std::time::Duration;

#[derive(Clone, Debug, Serialize, Deserialize, PartialEq)]
pub struct FullCfg {
    pub block_size: usize,
    pub multithread: bool,
    pub workers: usize,
    pub ls: bool,
    pub rs: bool,
    pub ms: bool,
    pub use_constant: bool,
    pub use_fixed: bool,
    pub use_lpc: bool,
    pub fixed_max_order: usize,
    /// None = BitCount
    pub approx_ent_partitions: Option<usize>,
    pub lpc_order: usize,
    pub precision: usize,
    /// None = Rectangle; otherwise the bit pattern of the f32 alpha (NaN and -0.0 survive JSON)
    pub tukey_alpha_bits: Option<u32>,
    pub max_param: usize,
    pub direct_mse: bool,
    pub mae_steps: usize,
}

impl FullCfg {
    pub fn default_point() -> Self {
        Self {
            block_size: 4096,
            multithread: false,
            workers: 0,
            ls: true,
            rs: true,
            ms: true,
            use_constant: true,
            use_fixed: true,
            use_lpc: true,
            fixed_max_order: 4,
            approx_ent_partitions: Some(16),
            lpc_order: 10,
            precision: 15,
            tukey_alpha_bits: Some(0.4f32.to_bits()),
            max_param: 14,
            direct_mse: false,
            mae_steps: 0,
        }
    }
    pub fn to_config(&self) -> config::Encoder {
        let mut e = config::Encoder::default();
        e.block_size = self.block_size;
        e.multithread = self.multithread;
        e.workers = std::num::NonZeroUsize::new(self.workers);
        e.stereo_coding.use_leftside = self.ls;
        e.stereo_coding.use_rightside = self.rs;
        e.stereo_coding.use_midside = self.ms;
        e.subframe_coding.use_constant = self.use_constant;
        e.subframe_coding.use_fixed = self.use_fixed;
        e.subframe_coding.use_lpc = self.use_lpc;
        e.subframe_coding.fixed.max_order = self.fixed_max_order;
        e.subframe_coding.fixed.order_sel = match self.approx_ent_partitions {
            None => config::OrderSel::BitCount,
            Some(p) => config::OrderSel::ApproxEnt { partitions: p },
        };
        e.subframe_coding.qlpc.lpc_order = self.lpc_order;
        e.subframe_coding.qlpc.quant_precision = self.precision;
        e.subframe_coding.qlpc.window = match self.tukey_alpha_bits {
            None => config::Window::Rectangle,
            Some(b) => config::Window::Tukey { alpha: f32::from_bits(b) },
        };
        e.subframe_coding.prc.max_parameter = self.max_param;
        e.subframe_coding.qlpc.use_direct_mse = self.direct_mse;
        e.subframe_coding.qlpc.mae_optimization_steps = self.mae_steps;
        e
    }
}

/// The documented ranges (statement of C07 / doc comments of `config`), field by field.
/// Returns the list of fields out of range.
pub fn out_of_range(c: &FullCfg, experimental: bool) -> Vec<&'static str> {
    let mut v = Vec::new();
    if !(32..=32767).contains(&c.block_size) {
        v.push("block_size");
    }
    if c.fixed_max_order > 4 {
        v.push("fixed.max_order");
    }
    if let Some(p) = c.approx_ent_partitions {
        if !(1..=64).contains(&p) {
            v.push("fixed.order_sel.partitions");
        }
    }
    if !(1..=24).contains(&c.lpc_order) {
        v.push("qlpc.lpc_order");
    }
    if !(1..=15).contains(&c.precision) {
        v.push("qlpc.quant_precision");
    }
    if c.max_param > 14 {
        v.push("prc.max_parameter");
    }
    if let Some(b) = c.tukey_alpha_bits {
        let a = f32::from_bits(b);
        if a.is_nan() || !(a >= 0.0 && a <= 1.0) {
            v.push("qlpc.window.alpha");
        }
    }
    if !experimental {
        if c.direct_mse {
            v.push("qlpc.use_direct_mse");
        }
        if c.mae_steps != 0 {
            v.push("qlpc.mae_optimization_steps");
        }
    }
    v
}

const BIG: usize = 1usize << 32;

type Setter = fn(&mut FullCfg, usize);

/// (field name, values as indices into a per-field list)
fn field_values() -> Vec<(&'static str, Vec<Box<dyn Fn(&mut FullCfg) + Send + Sync>>)> {
    fn us(name: &'static str, vals: &[usize], set: Setter) -> (&'static str, Vec<Box<dyn Fn(&mut FullCfg) + Send + Sync>>) {
        (name, vals.iter().map(|&v| Box::new(move |c: &mut FullCfg| set(c, v)) as Box<dyn Fn(&mut FullCfg) + Send + Sync>).collect())
    }
    let eps = f32::EPSILON;
    let alphas: Vec<Option<u32>> = vec![
        None,
        Some((-0.0f32).to_bits()),
        Some((-eps).to_bits()),
        Some(0.0f32.to_bits()),
        Some((2f32).powi(-17).to_bits()),
        Some(0.5f32.to_bits()),
        Some(1.0f32.to_bits()),
        Some((1.0 + eps).to_bits()),
        Some(f32::NAN.to_bits()),
        Some(f32::INFINITY.to_bits()),
        Some(f32::NEG_INFINITY.to_bits()),
        Some(1e-40f32.to_bits()),
        Some((-1e-40f32).to_bits()),
        Some(2.0f32.to_bits()),
    ];
    let mut v = vec![
        us("block_size", &[0, 31, 32, 33, 4096, 32767, 32768, 65535, 65536, BIG, BIG + 4096, usize::MAX], |c, x| c.block_size = x),
        us("fixed_max_order", &[0, 1, 2, 4, 5, 7, 255, 256, BIG, BIG + 4, usize::MAX], |c, x| c.fixed_max_order = x),
        us("lpc_order", &[0, 1, 2, 12, 24, 25, 32, 33, 256 + 8, BIG, BIG + 8, usize::MAX], |c, x| c.lpc_order = x),
        us("precision", &[0, 1, 2, 8, 15, 16, 17, 32, 256 + 12, BIG + 12, usize::MAX], |c, x| c.precision = x),
        us("max_param", &[0, 1, 7, 14, 15, 16, 30, 31, 256, BIG + 14, usize::MAX], |c, x| c.max_param = x),
        // with the experimental estimator compiled in, the step count is a running time, not a range to
        // verify: unbounded values are only meaningful where verification must reject them
        us("mae_steps", if cfg!(feature = "experimental") { &[0, 1, 2] } else { &[0, 1, 2, usize::MAX] }, |c, x| c.mae_steps = x),
        us("workers", &[0, 1, 2, 3, 300, BIG + 1, usize::MAX], |c, x| c.workers = x),
    ];
    let parts: Vec<Option<usize>> = vec![None, Some(0), Some(1), Some(2), Some(16), Some(64), Some(65), Some(128), Some(BIG + 16), Some(usize::MAX)];
    v.push(("order_sel", parts.into_iter().map(|p| Box::new(move |c: &mut FullCfg| c.approx_ent_partitions = p) as Box<dyn Fn(&mut FullCfg) + Send + Sync>).collect()));
    v.push(("window", alphas.into_iter().map(|a| Box::new(move |c: &mut FullCfg| c.tukey_alpha_bits = a) as Box<dyn Fn(&mut FullCfg) + Send + Sync>).collect()));
    macro_rules! boolf {
        ($name:literal, $f:ident) => {
            v.push(($name, vec![Box::new(|c: &mut FullCfg| c.$f = false) as Box<dyn Fn(&mut FullCfg) + Send + Sync>, Box::new(|c: &mut FullCfg| c.$f = true)]));
        };
    }
    boolf!("ls", ls);
    boolf!("rs", rs);
    boolf!("ms", ms);
    boolf!("use_constant", use_constant);
    boolf!("use_fixed", use_fixed);
    boolf!("use_lpc", use_lpc);
    boolf!("direct_mse", direct_mse);
    boolf!("multithread", multithread);
    v
}

fn bases() -> Vec<FullCfg> {
    let d = FullCfg::default_point();
    let mut lo = d.clone();
    lo.block_size = 32;
    lo.fixed_max_order = 0;
    lo.approx_ent_partitions = Some(1);
    lo.lpc_order = 1;
    lo.precision = 1;
    lo.tukey_alpha_bits = Some(0.0f32.to_bits());
    lo.max_param = 0;
    let mut hi = d.clone();
    hi.block_size = 32767;
    hi.fixed_max_order = 4;
    hi.approx_ent_partitions = Some(64);
    hi.lpc_order = 24;
    hi.precision = 15;
    hi.tukey_alpha_bits = Some(1.0f32.to_bits());
    hi.max_param = 14;
    vec![d, lo, hi]
}

pub fn all_configs() -> Vec<FullCfg> {
    all_configs_depth(2)
}

/// Every deviation of at most `depth` (2 or 3) fields; three-field deviations only from the default base.
pub fn all_configs_depth(depth: usize) -> Vec<FullCfg> {
    let fields = field_values();
    let mut out: Vec<FullCfg> = Vec::new();
    let mut seen = std::collections::HashSet::new();
    let mut push = |c: FullCfg, out: &mut Vec<FullCfg>| {
        let k = serde_json::to_string(&c).unwrap();
        if seen.insert(k) {
            out.push(c);
        }
    };
    for b in bases() {
        push(b.clone(), &mut out);
        for (i, (_, vi)) in fields.iter().enumerate() {
            for f in vi {
                let mut c1 = b.clone();
                f(&mut c1);
                push(c1.clone(), &mut out);
                for (j, (_, vj)) in fields.iter().enumerate().skip(i + 1) {
                    for g in vj {
                        let mut c2 = c1.clone();
                        g(&mut c2);
                        push(c2.clone(), &mut out);
                        if depth >= 3 && b == FullCfg::default_point() {
                            for (_, vk) in fields.iter().skip(j + 1) {
                                for h in vk {
                                    let mut c3 = c2.clone();
                                    h(&mut c3);
                                    push(c3, &mut out);
                                }
                            }
                        }
                    }
                }
            }
        }
    }
    out
}

/// Probe inputs: the six universe base inputs (3 short frames each), a short-only stream, and one
/// input at the configuration's own block size.
fn probes() -> Vec<Case> {
    let mut v: Vec<Case> = universe::base_points().iter().map(universe::decode).collect();
    let mut s = v[1].clone();
    s.input.full = 0;
    s.input.tail = 13;
    v.push(s);
    // a 24-bit block whose maximum lies in the predictor's warm-up positions (atom 34), mono
    let mut w = v[2].clone();
    w.input.ch = 1;
    w.input.rel = 0;
    w.input.atoms = [34, 34, 34, 34];
    v.push(w);
    v
}

fn run_probe(rep: &Report, local: &mut Local, fc: &FullCfg, vc: &flacenc::error::Verified<config::Encoder>, p: &Case, bs: usize, cj: &dyn Fn() -> Value, w: u64) {
    let samples = {
        let mut q = p.clone();
        q.input.bs = bs as u32;
        q.input.samples()
    };
    let (ch, bps, rate) = (p.input.ch as usize, p.input.bps as usize, p.input.rate as usize);
    local.count("probe_encodes", 1);
    let r = panicx::catch(|| flacenc::encode_with_fixed_block_size(vc, MemSource::from_samples(&samples, ch, bps, rate), bs));
    let stream = match r {
        Err(pn) => {
            rep.violation(&format!("accepted_config_{}", pn.class()), &format!("verified configuration makes the encoder panic: {}", pn.describe()), cj(), w);
            return;
        }
        Ok(Err(e)) => {
            rep.violation("accepted_config_encode_error", &format!("verified configuration makes the encoder fail on a valid input: {e:?}"), cj(), w);
            return;
        }
        Ok(Ok(s)) => s,
    };
    let bytes = match subject::stream_bytes(&stream) {
        Ok(b) => b,
        Err(subject::EncFail::TooBig(_)) => return,
        Err(e) => {
            rep.violation(&format!("accepted_config_write|{}", e.class()), &e.describe(), cj(), w);
            return;
        }
    };
    match strictflac::parse(&bytes) {
        Ok(f) => {
            if f.samples != samples {
                rep.violation("accepted_config_lossy", "verified configuration: the reference decoder returns different samples", cj(), w);
            }
        }
        Err(e) => rep.violation(&format!("accepted_config_undecodable|{}", strictflac::clause(&e)), &format!("verified configuration: stream not decodable: {e}"), cj(), w),
    }
    match subject::claxon_decode(&bytes) {
        Ok(c) => {
            if c.samples != samples {
                rep.violation("accepted_config_lossy|claxon", "verified configuration: claxon returns different samples", cj(), w);
            }
        }
        Err(e) => rep.violation("accepted_config_undecodable|claxon", &format!("verified configuration: claxon rejects the stream: {e}"), cj(), w),
    }
    let _ = fc;
}

fn check_config(rep: &Report, local: &mut Local, fc: &FullCfg, probes: &[Case]) {
    local.evals += 1;
    let cj = || json!({"config": fc});
    let bad = out_of_range(fc, cfg!(feature = "experimental"));
    let w = 1 + bad.len() as u64;
    let r = panicx::catch(|| fc.to_config().into_verified());
    let accepted = match r {
        Err(p) => {
            rep.violation(&format!("verify_{}", p.class()), &format!("verification panicked: {}", p.describe()), cj(), w);
            return;
        }
        Ok(Ok(v)) => Some(v),
        Ok(Err(_)) => None,
    };
    // verify() on the value must agree with into_verified()
    if let Ok(v2) = panicx::catch(|| fc.to_config().verify().is_ok()) {
        if v2 != accepted.is_some() {
            rep.violation("verify_vs_into_verified", "verify() and into_verified() disagree", cj(), w);
        }
    }
    match (&accepted, bad.is_empty()) {
        (Some(_), false) => {
            local.outcome("accepted_out_of_range");
            rep.violation(&format!("accepts_out_of_range|{}", bad[0]), &format!("verification accepts a configuration whose {} lies outside the documented range", bad.join(", ")), cj(), w);
        }
        (None, true) => {
            local.outcome("rejected_in_range");
            let why = fc.to_config().verify().err().map(|e| format!("{e:?}")).unwrap_or_default();
            rep.violation("rejects_in_range", &format!("verification rejects a configuration with every field in its documented range: {why}"), cj(), w);
        }
        (Some(_), true) => local.outcome("accepted"),
        (None, false) => local.outcome("rejected"),
    }
    if let Some(vc) = accepted {
        if bad.is_empty() {
            local.nontrivial.insert(universe::fnv(&serde_json::to_string(fc).unwrap()));
        }
        // accepted configurations (in range or not) must never make the encoder panic; out-of-range
        // ones are already reported above, so only in-range ones are probed for losslessness
        if bad.is_empty() && fc.multithread && fc.workers > 1024 && std::env::var_os("VERIF_C07_CHILD").is_none() {
            // a worker count the machine cannot serve: an allocation failure aborts the process instead of
            // unwinding, so this configuration is probed in a child process (this same check, replayed)
            isolated_probe(rep, local, fc, &cj, w + 10);
            return;
        }
        if bad.is_empty() {
            for p in probes {
                // the warm-up probe runs in single-thread configurations only: what it looks for is a panic
                // of the encoder, and a panic inside a worker thread costs the watchdog's patience per case
                if p.input.atoms[0] == 34 && fc.multithread {
                    continue;
                }
                run_probe(rep, local, fc, &vc, p, p.input.bs as usize, &cj, w + 10);
            }
            if fc.block_size >= 32 && fc.block_size != 4096 || fc.lpc_order == 24 {
                let mut p = probes[0].clone();
                p.input.full = 1;
                p.input.tail = 17;
                p.input.atoms = [13, 26, 13, 13];
                run_probe(rep, local, fc, &vc, &p, fc.block_size, &cj, w + 20);
            }
        }
    }
}

/// Runs `check_config` for one configuration in a child process and reports what it reported, or
/// that it died.
fn isolated_probe(rep: &Report, local: &mut Local, _fc: &FullCfg, cj: &dyn Fn() -> Value, w: u64) {
    static N: std::sync::atomic::AtomicUsize = std::sync::atomic::AtomicUsize::new(0);
    let k = N.fetch_add(1, std::sync::atomic::Ordering::SeqCst);
    let dir = std::env::temp_dir().join(format!("seqx-c07-{}-{k}", std::process::id()));
    let _ = std::fs::create_dir_all(&dir);
    let (case_f, rep_f) = (dir.join("case.json"), dir.join("report.json"));
    let _ = std::fs::write(&case_f, serde_json::to_string(&json!({"case": cj()})).unwrap());
    let exe = std::env::current_exe().expect("own path");
    let child = std::process::Command::new(exe)
        .args(["c07", "--replay", case_f.to_str().unwrap(), "--report", rep_f.to_str().unwrap()])
        .env("VERIF_C07_CHILD", "1")
        .stdout(std::process::Stdio::null())
        .stderr(std::process::Stdio::piped())
        .spawn();
    local.count("configurations_probed_in_a_child_process", 1);
    match child.and_then(|c| c.wait_with_output()) {
        Err(e) => rep.machinery_error(&format!("cannot run the isolated probe: {e}")),
        Ok(out) => {
            let report: Option<Value> = std::fs::read_to_string(&rep_f).ok().and_then(|s| serde_json::from_str(&s).ok());
            match (out.status.code(), report) {
                (Some(0), Some(_)) => local.outcome("isolated_ok"),
                (Some(1), Some(r)) => {
                    for v in r["violations"].as_array().cloned().unwrap_or_default() {
                        rep.violation(&format!("{}|isolated", v["class"].as_str().unwrap_or("?")), v["what"].as_str().unwrap_or(""), cj(), w);
                    }
                    local.outcome("isolated_violation");
                }
                (code, _) => {
                    let err = String::from_utf8_lossy(&out.stderr);
                    let tail: String = err.chars().rev().take(300).collect::<String>().chars().rev().collect();
                    rep.violation(
                        "accepted_config_kills_the_process",
                        &format!("verified configuration: the encoding process died (exit {code:?}, {:?}): {}", out.status, tail.replace('\n', " ")),
                        cj(),
                        w,
                    );
                    local.outcome("isolated_died");
                }
            }
        }
    }
    let _ = std::fs::remove_dir_all(&dir);
}

pub fn run(args: &Args, rep: &Arc<Report>) {
    let probes = probes();
    if let Some(p) = &args.replay {
        let s = std::fs::read_to_string(p).unwrap_or_default();
        let v: Value = serde_json::from_str(&s).unwrap_or(Value::Null);
        let c = v.get("case").cloned().unwrap_or(v);
        let fc: FullCfg = serde_json::from_value(c["config"].clone()).expect("replay file holds no configuration");
        let mut local = Local::default();
        check_config(rep, &mut local, &fc, &probes);
        rep.merge(local);
        rep.set_rule("replay of one recorded configuration");
        return;
    }
    let thorough = args.tier == "thorough";
    let cfgs = all_configs_depth(3);
    let n = cfgs.len();
    let chunk = 16;
    par_for(
        rep,
        (n + chunk - 1) / chunk,
        Duration::from_secs(600),
        |i| json!({"config": cfgs[i * chunk]}),
        |i, local| {
            for c in &cfgs[i * chunk..((i + 1) * chunk).min(n)] {
                if rep.want_sample() {
                    rep.sample(json!({"config": c}));
                }
                check_config(rep, local, c, &probes);
            }
        },
    );
    // the block-size line: the default configuration at every block size of the documented range (quick:
    // every size up to 1100 and the neighbourhood of every block-size code class of the frame header)
    let mut sizes: Vec<usize> = if thorough { (32..=32767).collect() } else { (32..=1100).collect() };
    for k in 0..=7u32 {
        for base in [576usize, 256] {
            let v = base << k;
            for l in [v - 1, v, v + 1] {
                if (32..=32767).contains(&l) {
                    sizes.push(l);
                }
            }
        }
    }
    sizes.extend_from_slice(&[32766, 32767, 65535 / 2, 16383, 16385]);
    sizes.sort_unstable();
    sizes.dedup();
    let ns = sizes.len();
    par_for(
        rep,
        ns,
        Duration::from_secs(600),
        |i| json!({"config": FullCfg { block_size: sizes[i], ..FullCfg::default_point() }}),
        |i, local| {
            let fc = FullCfg { block_size: sizes[i], ..FullCfg::default_point() };
            let cj = || json!({"config": fc, "block_size_line": true});
            local.evals += 1;
            match panicx::catch(|| fc.to_config().into_verified()) {
                Err(p) => rep.violation(&format!("verify_{}", p.class()), &format!("verification panicked: {}", p.describe()), cj(), 1),
                Ok(Err(_)) => rep.violation("rejects_in_range", &format!("verification rejects the default configuration at block size {}", sizes[i]), cj(), 1),
                Ok(Ok(vc)) => {
                    let mut p = probes[0].clone();
                    p.input.full = 1;
                    p.input.tail = 17;
                    p.input.atoms = [13, 26, 13, 13];
                    run_probe(rep, local, &fc, &vc, &p, fc.block_size, &cj, 2);
                    local.outcome("block_size_line_done");
                    local.nontrivial.insert(universe::fnv(&format!("bsline{}", sizes[i])));
                }
            }
        },
    );
    rep.extra("block_size_line", json!(ns));
    rep.extra("configurations", json!(n));
    rep.extra("deviation_depth", json!(3));
    rep.set_rule("every single- and two-field deviation from three valid base configurations (default, all-minimum, all-maximum), and every three-field deviation from the default; per field {min-1, min, middle, max, max+1, 2^8+k, 2^32+k, usize::MAX}, alpha over {Rectangle, -0.0, -eps, 0, 2^-17, 0.5, 1, 1+eps, NaN, +-inf, +-subnormal, 2}, both OrderSel variants, all booleans; oracle (a): into_verified().is_ok() == (every field inside the documented range) and verify() agrees; oracle (b): every accepted in-range configuration encodes 7 probe inputs (+1 at its own block size) without panic, decodable losslessly by the reference decoder and claxon; oracle (c), the block-size line: the default configuration at every block size 32..=1100 and around every block-size code class of the frame header (thorough: at EVERY block size 32..=32767) is accepted and encodes a block plus a 17-sample tail losslessly; non-trivial = an accepted in-range configuration");
}
