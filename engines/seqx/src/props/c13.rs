//! C13 (black box) - the Rice partitioning of every emitted residual is cost-optimal.
use super::ustream::{self, drive};
use crate::report::{Local, Report};
use crate::ricebf;
use crate::strictflac::{self, SubKind};
use crate::subject::{self, EncFail, Mode};
use crate::universe::Case;
use crate::Args;
use std::sync::Arc;

pub fn check_case(rep: &Report, case: &Case, labels: &[String], local: &mut Local) {
    let samples = case.input.samples();
    local.evals += 1;
    for l in labels {
        local.dim(l);
    }
    let bytes = match subject::encode_bytes(case, &samples, Mode::St) {
        Ok((_, b)) => b,
        Err(EncFail::TooBig(bits)) => {
            // A stream of > 64 MiB for these inputs means some residual was coded in far more
            // than the optimum (every block here codes in < 2^28 bits with p = cap).
            local.outcome("giant_stream");
            rep.violation(
                "giant_stream",
                &format!("stream reports {bits} bits; no residual of this input needs more than 2^28 bits under the best parameters"),
                case.json(),
                case.weight(),
            );
            return;
        }
        Err(e) => {
            local.outcome(&format!("fail:{}", e.class()));
            rep.violation(&format!("encode_fail|{}", e.class()), &e.describe(), case.json(), case.weight());
            return;
        }
    };
    let f = match strictflac::parse(&bytes) {
        Ok(f) => f,
        Err(e) => {
            rep.violation(
                &format!("strict_reject|{}", strictflac::clause(&e)),
                &format!("reference parser cannot follow the stream: {e}"),
                case.json(),
                case.weight(),
            );
            return;
        }
    };
    let cap = case.cfg.max_param;
    let mut multi = false;
    let mut ok = true;
    for (fi, fr) in f.frames.iter().enumerate() {
        for (ci, sf) in fr.subframes.iter().enumerate() {
            let order = match sf.kind {
                SubKind::Fixed(o) | SubKind::Lpc(o) => o as usize,
                _ => continue,
            };
            local.count("residuals_checked", 1);
            let n = fr.block_size;
            let Some(opt) = ricebf::optimum(&sf.residuals, n, order, cap) else {
                rep.violation(
                    "no_admissible_order",
                    &format!("frame {fi} ch {ci}: predicted subframe with block size {n}, order {order} has no admissible partition order"),
                    case.json(),
                    case.weight(),
                );
                ok = false;
                continue;
            };
            if opt.per_order.len() >= 2 {
                multi = true;
            }
            let actual = sf.residual_bits as u64;
            let recomputed = ricebf::coded_bits(&sf.residuals, n, order, sf.part_order, &sf.rice_params);
            if recomputed != actual {
                rep.machinery_error(&format!(
                    "strictflac residual_bits {actual} != recomputed {recomputed} for case {}",
                    case.json()
                ));
                continue;
            }
            if sf.rice_params.iter().any(|&p| p > cap) {
                ok = false;
                rep.violation(
                    "parameter_above_cap",
                    &format!("frame {fi} ch {ci}: Rice parameter above the configured maximum {cap}: {:?}", sf.rice_params),
                    case.json(),
                    case.weight(),
                );
            }
            if !ricebf::admissible_orders(n, order).contains(&sf.part_order) {
                ok = false;
                rep.violation(
                    "order_outside_search_space",
                    &format!("frame {fi} ch {ci}: partition order {} outside the search space for n={n}, order={order}", sf.part_order),
                    case.json(),
                    case.weight(),
                );
            }
            if opt.bits < (1u64 << 28) && actual != opt.bits {
                ok = false;
                if actual < opt.bits && (!ricebf::admissible_orders(n, order).contains(&sf.part_order) || sf.rice_params.iter().any(|&p| p > cap)) {
                    // coded outside the search space the statement names (already reported above)
                    continue;
                }
                if actual < opt.bits {
                    rep.machinery_error(&format!("coded size {actual} below brute-force optimum {} for case {}", opt.bits, case.json()));
                    continue;
                }
                rep.violation(
                    "not_optimal",
                    &format!(
                        "frame {fi} ch {ci} ({:?}, n={n}): coded in {actual} bits with partition order {} params {:?}; optimum is {} bits at order {} (per order: {:?})",
                        sf.kind,
                        sf.part_order,
                        &sf.rice_params[..sf.rice_params.len().min(8)],
                        opt.bits,
                        opt.order,
                        opt.per_order
                    ),
                    case.json(),
                    case.weight(),
                );
            } else if opt.bits >= (1u64 << 28) {
                local.count("residuals_above_2^28_not_judged", 1);
            }
        }
    }
    if multi {
        local.nontrivial.insert(case.id());
    }
    local.outcome(if ok { "ok" } else { "violation" });
}

pub fn run(args: &Args, rep: &Arc<Report>) {
    let thorough = args.tier == "thorough";
    if args.replay.is_none() || true {
        // the seam part (direct calls of the Rice search) is a separate sub-check, see c13s
    }
    let groups = if args.replay.is_some() {
        vec![]
    } else if thorough {
        vec![ustream::g9(&[64, 192, 576, 4096]), ustream::gn()]
    } else {
        vec![ustream::g9(&[192, 576]), ustream::gn()]
    };
    let d = if thorough { 3 } else { 2 };
    drive(args, rep, d, true, groups, |case, labels, local| {
        if rep.want_sample() {
            rep.sample(case.json());
        }
        check_case(rep, case, labels, local);
    });
    rep.add_rule("for every fixed/LPC subframe the coded residual size must equal the brute-force minimum over {orders o: 2^o | n, n>>o >= max(64, predictor order)} x {p in 0..=max_parameter} (judged when the minimum is < 2^28 bits); non-trivial = a residual with at least two admissible partition orders");
}
