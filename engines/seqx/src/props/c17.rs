//! C17 - invalid arguments to the encoding API produce errors, not panics.
//!
//! Every public entry point of the encoding API x every argument over a boundary / wrap-around
//! grid (others valid). Oracle: a domain predicate written from the statement: arguments the
//! statement lists as outside the supported domain must give `Err` (not `Ok`, not a panic, not a
//! hang); plainly valid arguments must give `Ok`; arguments the statement does not classify are
//! executed and only required not to panic.
use crate::report::{par_for, Local, Report};
use crate::subject::{self, to_le_bytes};
use crate::universe::Cfg;
use crate::{panicx, Args};
use flacenc::component::{Stream, StreamInfo};
use flacenc::error::SourceError;
use flacenc::source::{Context, Fill, FrameBuf, MemSource, Source};
use serde::{Deserialize, Serialize};
use serde_json::{json, Value};
use std::sync::Arc;
use std::time::Duration;

const BIG: usize = 1usize << 32;

#[derive(Clone, Debug, Serialize, Deserialize, PartialEq)]
pub enum Probe {
    /// encode_with_fixed_block_size with a source reporting (channels, bps, rate), block size, threading
    StreamEncode { ch: usize, bps: usize, rate: usize, bs: usize, mt: bool, mem_source: bool },
    /// a source delivering samples outside the declared width in block `bad_block`
    StreamBadSample {
        bps: usize,
        mt: bool,
        bad_block: usize,
        value: i64,
        bytes: bool,
        /// length of the last block in inter-channel samples (0 = a full block) and channel of the bad sample
        #[serde(default)]
        last_len: usize,
        #[serde(default)]
        ch: usize,
    },
    /// a source whose byte fills use `fill_bytes` bytes per sample while it declares `bps`
    StreamByteMismatch { bps: usize, fill_bytes: usize, mt: bool },
    /// a source filling more samples than the block size in one read
    StreamOverfill { extra: usize, mt: bool, bytes: bool },
    /// encode_fixed_size_frame with a frame number
    FrameNumber { n: usize },
    /// encode_fixed_size_frame with a StreamInfo that disagrees with the FrameBuf
    FrameInfoMismatch { fb_ch: usize, info_ch: usize, info_bps: usize, data_bps: usize },
    /// encode_fixed_size_frame with a StreamInfo that no constructor returns (obtained by deserialisation,
    /// StreamInfo derives Deserialize): channel count, width and rate as given; the frame buffer is valid
    FrameInfoDeserialized { ch: usize, bps: usize, rate: usize },
    /// encode_fixed_size_frame with one sample outside the width
    FrameBadSample {
        bps: usize,
        value: i64,
        ch: usize,
        /// inter-channel samples filled into the 64-sample buffer (0 = all 64), channel count
        #[serde(default)]
        filled: usize,
        #[serde(default)]
        channels: usize,
    },
    StreamNew { rate: usize, ch: usize, bps: usize },
    StreamInfoNew { rate: usize, ch: usize, bps: usize },
    FrameBufNew { ch: usize, size: usize },
    /// FrameBuf fill of `len` interleaved values into a buffer of (ch, size); bytes_per_sample 0 = integer fill
    FrameBufFill { ch: usize, size: usize, len: usize, bytes_per_sample: usize },
    /// a (ch, 64) buffer, optionally filled completely, then `FrameBuf::resize(new_size)`, then optionally a
    /// fill of `fill` inter-channel samples (usize::MAX = none; bytes_per_sample 0 = integer fill), then
    /// encode_fixed_size_frame: the frame-level entry point sees a block size chosen through the buffer
    FrameBufResized { ch: usize, prefill: bool, new_size: usize, fill: usize, bytes_per_sample: usize },
    ContextNew { bps: usize, ch: usize },
    /// Context fill: declared bps, bytes per sample used in the call (0 = integer fill), number of values
    ContextFill { bps: usize, ch: usize, len: usize, bytes_per_sample: usize },
    /// a byte fill of `len` raw bytes whose bytes-per-sample argument is `width` (values no sample format
    /// has: 0, 5.., wrap-around values), into target 0 = FrameBuf, 1 = Context, 2 = the pair, 3 = a stream
    /// encode (single thread), 4 = a stream encode (multi-thread); 16-bit stereo is declared
    ByteWidth { target: u8, width: usize, len: usize },
}

#[derive(Clone, Copy, Debug, PartialEq, Eq)]
pub enum Expect {
    MustErr,
    MustOk,
    /// the statement does not classify the argument: only "no panic, no hang"
    NoPanic,
}

fn width_class(bps: usize) -> Expect {
    match bps {
        8 | 12 | 16 | 20 | 24 => Expect::MustOk,
        // every other width is unsupported at the stream level (4n+1 widths exist for side channels only;
        // streams the encoder produced for them failed the library's own verification)
        _ => Expect::MustErr,
    }
}

fn combine(v: &[Expect]) -> Expect {
    if v.contains(&Expect::MustErr) {
        Expect::MustErr
    } else if v.contains(&Expect::NoPanic) {
        Expect::NoPanic
    } else {
        Expect::MustOk
    }
}

fn ch_class(ch: usize) -> Expect {
    if (1..=8).contains(&ch) {
        Expect::MustOk
    } else {
        Expect::MustErr
    }
}

fn rate_class(rate: usize) -> Expect {
    if rate > 96_000 {
        Expect::MustErr
    } else if rate == 0 {
        Expect::NoPanic
    } else {
        Expect::MustOk
    }
}

fn bs_class(bs: usize) -> Expect {
    if (32..=32767).contains(&bs) {
        Expect::MustOk
    } else {
        Expect::MustErr
    }
}

pub fn expectation(p: &Probe) -> Expect {
    match p {
        Probe::StreamEncode { ch, bps, rate, bs, .. } => combine(&[ch_class(*ch), width_class(*bps), rate_class(*rate), bs_class(*bs)]),
        Probe::StreamBadSample { .. } => Expect::MustErr,
        Probe::StreamByteMismatch { bps, fill_bytes, .. } => {
            if *fill_bytes == (*bps + 7) / 8 {
                Expect::MustOk
            } else {
                Expect::MustErr
            }
        }
        Probe::StreamOverfill { extra, .. } => {
            if *extra == 0 {
                Expect::MustOk
            } else {
                Expect::MustErr
            }
        }
        Probe::FrameNumber { n } => {
            if *n < (1usize << 31) {
                Expect::MustOk
            } else {
                Expect::MustErr
            }
        }
        Probe::FrameInfoMismatch { fb_ch, info_ch, info_bps, data_bps } => {
            if fb_ch == info_ch && data_bps <= info_bps {
                combine(&[width_class(*info_bps)])
            } else if fb_ch != info_ch {
                // the statement does not list a StreamInfo/FrameBuf channel mismatch: no panic only
                Expect::NoPanic
            } else {
                // samples wider than the declared width
                Expect::MustErr
            }
        }
        Probe::FrameInfoDeserialized { ch, bps, rate } => combine(&[rate_class(*rate), ch_class(*ch), width_class(*bps)]),
        Probe::FrameBadSample { .. } => Expect::MustErr,
        Probe::StreamNew { rate, ch, bps } | Probe::StreamInfoNew { rate, ch, bps } => combine(&[rate_class(*rate), ch_class(*ch), width_class(*bps)]),
        Probe::FrameBufNew { ch, size } => combine(&[ch_class(*ch), bs_class(*size)]),
        Probe::FrameBufFill { ch, size, len, bytes_per_sample } => {
            if *bytes_per_sample > 4 || (*len == 0 && *bytes_per_sample == 0) {
                Expect::NoPanic
            } else if *len > ch * size {
                Expect::MustErr
            } else if len % ch != 0 {
                Expect::NoPanic
            } else {
                Expect::MustOk
            }
        }
        Probe::FrameBufResized { new_size, fill, prefill, .. } => {
            if *fill == usize::MAX && *prefill {
                // what a resize leaves of an earlier fill is not specified: an empty buffer cannot
                // hold a block, otherwise only "no panic"
                return if *new_size == 0 { Expect::MustErr } else { Expect::NoPanic };
            }
            // the block the frame-level entry point is asked to encode
            let filled = if *fill == usize::MAX { 0 } else { (*fill).min(*new_size) };
            if *fill != usize::MAX && *fill > *new_size {
                // more samples than the buffer holds
                Expect::MustErr
            } else if filled == 0 || filled > 32767 {
                // a block size of 0 or above 32767: outside the supported domain whatever the path
                Expect::MustErr
            } else if (32..=32767).contains(new_size) && filled == *new_size {
                Expect::MustOk
            } else {
                // short blocks (a last block) and buffers smaller than 32: no panic
                Expect::NoPanic
            }
        }
        Probe::ContextNew { bps, ch } => {
            // Context::new returns no Result; only "no panic" can be demanded for supported widths
            // not one of the entry points the statement names (it returns no Result): recorded only
            let _ = (bps, ch);
            Expect::NoPanic
        }
        Probe::ByteWidth { width, len, .. } => {
            if *len == 0 || (1..=4).contains(width) {
                Expect::NoPanic
            } else {
                Expect::MustErr
            }
        }
        Probe::ContextFill { bps, ch, len, bytes_per_sample } => {
            if *len == 0 {
                // an empty fill carries no sample whose width could disagree
                Expect::NoPanic
            } else if *ch == 0 {
                // "channel count 0": Context::new has no Result to refuse it with, so the fill has to
                Expect::MustErr
            } else if ![8usize, 12, 16, 20, 24].contains(bps) || *ch > 8 {
                // a context of an unsupported width / more than 8 channels (Context::new returns no Result):
                // unclassified, the fill must not panic
                Expect::NoPanic
            } else if *bytes_per_sample != 0 && *bytes_per_sample != (*bps + 7) / 8 {
                Expect::MustErr
            } else if len % ch != 0 {
                Expect::NoPanic
            } else {
                Expect::MustOk
            }
        }
    }
}

struct GridSource {
    ch: usize,
    bps: usize,
    rate: usize,
    /// interleaved values per block, bytes per sample for byte delivery (0 = ints)
    blocks: Vec<Vec<i32>>,
    fill_bytes: usize,
    pos: usize,
}

impl Source for GridSource {
    fn channels(&self) -> usize {
        self.ch
    }
    fn bits_per_sample(&self) -> usize {
        self.bps
    }
    fn sample_rate(&self) -> usize {
        self.rate
    }
    fn read_samples<F: Fill>(&mut self, _block_size: usize, dest: &mut F) -> Result<usize, SourceError> {
        let empty = Vec::new();
        let blk = self.blocks.get(self.pos).unwrap_or(&empty);
        self.pos += 1;
        if self.fill_bytes == 0 {
            dest.fill_interleaved(blk)?;
        } else {
            let mut bytes = Vec::with_capacity(blk.len() * self.fill_bytes);
            for s in blk {
                let v = *s as i64;
                for k in 0..self.fill_bytes {
                    bytes.push(((v >> (8 * k)) & 0xFF) as u8);
                }
            }
            dest.fill_le_bytes(&bytes, self.fill_bytes)?;
        }
        Ok(blk.len() / self.ch.max(1))
    }
}

fn ramp(n: usize, bps: usize) -> Vec<i32> {
    let max = if (2..=31).contains(&bps) { (1i64 << (bps - 1)) - 1 } else { 127 };
    (0..n).map(|i| (((i as i64 * 37) % (2 * max + 1)) - max) as i32).collect()
}

#[derive(Debug)]
pub enum Outcome {
    Ok,
    Err(String),
    Panic(panicx::PanicRec),
}

pub fn execute(p: &Probe) -> Outcome {
    let cfg = |mt: bool| {
        let mut c = Cfg::default();
        c.workers = 2;
        subject::verified(&c, mt, 64).ok().expect("default configuration verifies")
    };
    let r = panicx::catch(|| -> Result<(), String> {
        match p {
            Probe::StreamEncode { ch, bps, rate, bs, mt, mem_source } => {
                let c = cfg(*mt);
                let chn = (*ch).clamp(1, 8);
                let n = (*bs).clamp(1, 4096);
                let samples = ramp(n * chn * 2 + chn * 3, (*bps).clamp(2, 24));
                // the source reports the grid values; its data is laid out for min(ch, 8) channels
                if *mem_source {
                    flacenc::encode_with_fixed_block_size(&c, MemSource::from_samples(&samples, *ch, *bps, *rate), *bs).map(|_| ()).map_err(|e| format!("{e:?}"))
                } else {
                    let per = n * chn;
                    let blocks: Vec<Vec<i32>> = samples.chunks(per.max(1)).map(<[i32]>::to_vec).collect();
                    let src = GridSource { ch: *ch, bps: *bps, rate: *rate, blocks, fill_bytes: 0, pos: 0 };
                    flacenc::encode_with_fixed_block_size(&c, src, *bs).map(|_| ()).map_err(|e| format!("{e:?}"))
                }
            }
            Probe::StreamBadSample { bps, mt, bad_block, value, bytes, last_len, ch } => {
                let c = cfg(*mt);
                let mut blocks: Vec<Vec<i32>> = (0..3).map(|_| ramp(64 * 2, *bps)).collect();
                if *last_len > 0 {
                    blocks[2].truncate(*last_len * 2);
                }
                // the bad sample sits at the last filled inter-channel sample of its block, in channel `ch`
                let at = blocks[*bad_block].len() - 2 + (*ch).min(1);
                let at = if *last_len == 0 && *ch == 0 { 17 } else { at };
                blocks[*bad_block][at] = *value as i32;
                let fill_bytes = if *bytes { (*bps + 7) / 8 } else { 0 };
                let src = GridSource { ch: 2, bps: *bps, rate: 44100, blocks, fill_bytes, pos: 0 };
                flacenc::encode_with_fixed_block_size(&c, src, 64).map(|_| ()).map_err(|e| format!("{e:?}"))
            }
            Probe::StreamByteMismatch { bps, fill_bytes, mt } => {
                let c = cfg(*mt);
                let blocks: Vec<Vec<i32>> = (0..2).map(|_| ramp(64 * 2, (*bps).min(8 * *fill_bytes).max(2))).collect();
                let src = GridSource { ch: 2, bps: *bps, rate: 44100, blocks, fill_bytes: *fill_bytes, pos: 0 };
                flacenc::encode_with_fixed_block_size(&c, src, 64).map(|_| ()).map_err(|e| format!("{e:?}"))
            }
            Probe::StreamOverfill { extra, mt, bytes } => {
                let c = cfg(*mt);
                let blocks: Vec<Vec<i32>> = vec![ramp((64 + extra) * 2, 16), ramp(64 * 2, 16)];
                let src = GridSource { ch: 2, bps: 16, rate: 44100, blocks, fill_bytes: if *bytes { 2 } else { 0 }, pos: 0 };
                flacenc::encode_with_fixed_block_size(&c, src, 64).map(|_| ()).map_err(|e| format!("{e:?}"))
            }
            Probe::FrameNumber { n } => {
                let c = cfg(false);
                let mut fb = FrameBuf::with_size(2, 64).map_err(|e| format!("{e:?}"))?;
                fb.fill_interleaved(&ramp(128, 16)).map_err(|e| format!("{e:?}"))?;
                let info = StreamInfo::new(44100, 2, 16).map_err(|e| format!("{e:?}"))?;
                flacenc::encode_fixed_size_frame(&c, &fb, *n, &info).map(|_| ()).map_err(|e| format!("{e:?}"))
            }
            Probe::FrameInfoMismatch { fb_ch, info_ch, info_bps, data_bps } => {
                let c = cfg(false);
                let mut fb = FrameBuf::with_size(*fb_ch, 64).map_err(|e| format!("setup: {e:?}"))?;
                fb.fill_interleaved(&ramp(64 * fb_ch, *data_bps)).map_err(|e| format!("setup: {e:?}"))?;
                let info = StreamInfo::new(44100, *info_ch, *info_bps).map_err(|e| format!("setup: {e:?}"))?;
                flacenc::encode_fixed_size_frame(&c, &fb, 0, &info).map(|_| ()).map_err(|e| format!("{e:?}"))
            }
            Probe::FrameInfoDeserialized { ch, bps, rate } => {
                let c = cfg(false);
                let fb_ch = if (1..=8).contains(ch) { *ch } else { 2 };
                let mut fb = FrameBuf::with_size(fb_ch, 64).map_err(|e| format!("setup: {e:?}"))?;
                fb.fill_interleaved(&ramp(64 * fb_ch, 8)).map_err(|e| format!("setup: {e:?}"))?;
                let good = StreamInfo::new(44100, 2, 16).map_err(|e| format!("setup: {e:?}"))?;
                let mut v = toml::Value::try_from(&good).map_err(|e| format!("setup: {e}"))?;
                {
                    let t = v.as_table_mut().ok_or("setup: StreamInfo is not a table")?;
                    t.insert("channels".into(), toml::Value::Integer(*ch as i64));
                    t.insert("bits_per_sample".into(), toml::Value::Integer(*bps as i64));
                    t.insert("sample_rate".into(), toml::Value::Integer(*rate as i64));
                }
                // a value the document cannot carry (or that deserialisation refuses) is no probe at all
                let info: StreamInfo = match v.try_into() {
                    Ok(i) => i,
                    Err(e) => return Err(format!("deserialisation refused: {e}")),
                };
                flacenc::encode_fixed_size_frame(&c, &fb, 0, &info).map(|_| ()).map_err(|e| format!("{e:?}"))
            }
            Probe::FrameBadSample { bps, value, ch, filled, channels } => {
                let c = cfg(false);
                let nch = if *channels == 0 { 2 } else { *channels };
                let n = if *filled == 0 { 64 } else { *filled };
                let mut fb = FrameBuf::with_size(nch, 64).map_err(|e| format!("{e:?}"))?;
                // a full fill first, so that a partial fill leaves valid older samples behind it
                fb.fill_interleaved(&ramp(64 * nch, *bps)).map_err(|e| format!("{e:?}"))?;
                let mut s = ramp(n * nch, *bps);
                s[nch * (n - 1) + (*ch).min(nch - 1)] = *value as i32;
                fb.fill_interleaved(&s).map_err(|e| format!("{e:?}"))?;
                let info = StreamInfo::new(44100, nch, *bps).map_err(|e| format!("{e:?}"))?;
                flacenc::encode_fixed_size_frame(&c, &fb, 0, &info).map(|_| ()).map_err(|e| format!("{e:?}"))
            }
            Probe::StreamNew { rate, ch, bps } => Stream::new(*rate, *ch, *bps).map(|_| ()).map_err(|e| format!("{e:?}")),
            Probe::StreamInfoNew { rate, ch, bps } => StreamInfo::new(*rate, *ch, *bps).map(|_| ()).map_err(|e| format!("{e:?}")),
            Probe::FrameBufNew { ch, size } => FrameBuf::with_size(*ch, *size).map(|_| ()).map_err(|e| format!("{e:?}")),
            Probe::FrameBufFill { ch, size, len, bytes_per_sample } => {
                let mut fb = FrameBuf::with_size(*ch, *size).map_err(|e| format!("setup: {e:?}"))?;
                let data = ramp(*len, 8);
                let r = if *bytes_per_sample == 0 {
                    fb.fill_interleaved(&data)
                } else {
                    fb.fill_le_bytes(&to_le_bytes(&data, (*bytes_per_sample).min(4) * 8)[..len * (*bytes_per_sample).min(4)].to_vec(), *bytes_per_sample)
                };
                r.map_err(|e| format!("{e:?}"))?;
                // an accepted fill must leave the buffer usable
                let info = StreamInfo::new(44100, *ch, 16).map_err(|e| format!("setup: {e:?}"))?;
                if fb.filled_size() > 0 {
                    flacenc::encode_fixed_size_frame(&cfg(false), &fb, 0, &info).map(|_| ()).map_err(|e| format!("after an accepted fill: {e:?}"))?;
                }
                Ok(())
            }
            Probe::FrameBufResized { ch, prefill, new_size, fill, bytes_per_sample } => {
                let mut fb = FrameBuf::with_size(*ch, 64).map_err(|e| format!("setup: {e:?}"))?;
                if *prefill {
                    fb.fill_interleaved(&ramp(64 * ch, 8)).map_err(|e| format!("setup: {e:?}"))?;
                }
                fb.resize(*new_size);
                if *fill != usize::MAX {
                    let data = ramp(fill * ch, 8);
                    let r = if *bytes_per_sample == 0 { fb.fill_interleaved(&data) } else { fb.fill_le_bytes(&to_le_bytes(&data, 8 * *bytes_per_sample), *bytes_per_sample) };
                    r.map_err(|e| format!("{e:?}"))?;
                }
                let info = StreamInfo::new(44100, *ch, 16).map_err(|e| format!("setup: {e:?}"))?;
                let f = flacenc::encode_fixed_size_frame(&cfg(false), &fb, 0, &info).map_err(|e| format!("{e:?}"))?;
                // an accepted block is encoded with its own size, not with a truncation of it
                let want = if *fill == usize::MAX { fb.filled_size() } else { *fill };
                if f.block_size() != want {
                    return Err(format!("silently reinterpreted: {} samples encoded as a block of {}", want, f.block_size()));
                }
                Ok(())
            }
            Probe::ContextNew { bps, ch } => {
                let _ = Context::new(*bps, *ch);
                Ok(())
            }
            Probe::ByteWidth { target, width, len } => {
                let bytes: Vec<u8> = (0..*len).map(|i| (i * 7) as u8 & 0x3F).collect();
                match target {
                    0 => FrameBuf::with_size(2, 64).map_err(|e| format!("setup: {e:?}"))?.fill_le_bytes(&bytes, *width).map_err(|e| format!("{e:?}")),
                    1 => Context::new(16, 2).fill_le_bytes(&bytes, *width).map_err(|e| format!("{e:?}")),
                    2 => (FrameBuf::with_size(2, 64).map_err(|e| format!("setup: {e:?}"))?, Context::new(16, 2)).fill_le_bytes(&bytes, *width).map_err(|e| format!("{e:?}")),
                    _ => {
                        struct RawWidth {
                            bytes: Vec<u8>,
                            width: usize,
                            reads: usize,
                        }
                        impl Source for RawWidth {
                            fn channels(&self) -> usize {
                                2
                            }
                            fn bits_per_sample(&self) -> usize {
                                16
                            }
                            fn sample_rate(&self) -> usize {
                                44100
                            }
                            fn read_samples<F: Fill>(&mut self, _block_size: usize, dest: &mut F) -> Result<usize, SourceError> {
                                self.reads += 1;
                                if self.reads > 2 {
                                    dest.fill_le_bytes(&[], 2)?;
                                    return Ok(0);
                                }
                                dest.fill_le_bytes(&self.bytes, self.width)?;
                                Ok(self.bytes.len() / 4)
                            }
                        }
                        flacenc::encode_with_fixed_block_size(&cfg(*target == 4), RawWidth { bytes, width: *width, reads: 0 }, 64).map(|_| ()).map_err(|e| format!("{e:?}"))
                    }
                }
            }
            Probe::ContextFill { bps, ch, len, bytes_per_sample } => {
                let mut ctx = Context::new(*bps, *ch);
                let data = ramp(*len, 8);
                if *bytes_per_sample == 0 {
                    ctx.fill_interleaved(&data).map_err(|e| format!("{e:?}"))
                } else {
                    let b = (*bytes_per_sample).min(8);
                    let bytes: Vec<u8> = data.iter().flat_map(|s| (*s as i64).to_le_bytes()[..b].to_vec()).collect();
                    ctx.fill_le_bytes(&bytes, *bytes_per_sample).map_err(|e| format!("{e:?}"))
                }
            }
        }
    });
    match r {
        Ok(Ok(())) => Outcome::Ok,
        Ok(Err(e)) => Outcome::Err(e),
        Err(p) => Outcome::Panic(p),
    }
}

fn kind(p: &Probe) -> &'static str {
    match p {
        Probe::StreamEncode { .. } => "encode_with_fixed_block_size",
        Probe::StreamBadSample { .. } => "encode_with_fixed_block_size(out-of-width sample)",
        Probe::StreamByteMismatch { .. } => "encode_with_fixed_block_size(bytes-per-sample mismatch)",
        Probe::StreamOverfill { .. } => "encode_with_fixed_block_size(overfull read)",
        Probe::FrameNumber { .. } => "encode_fixed_size_frame(frame number)",
        Probe::FrameInfoMismatch { .. } => "encode_fixed_size_frame(StreamInfo vs FrameBuf)",
        Probe::FrameInfoDeserialized { .. } => "encode_fixed_size_frame(deserialised StreamInfo)",
        Probe::FrameBadSample { .. } => "encode_fixed_size_frame(out-of-width sample)",
        Probe::StreamNew { .. } => "Stream::new",
        Probe::StreamInfoNew { .. } => "StreamInfo::new",
        Probe::FrameBufNew { .. } => "FrameBuf::with_size",
        Probe::FrameBufFill { .. } => "FrameBuf::fill",
        Probe::FrameBufResized { .. } => "encode_fixed_size_frame(resized FrameBuf)",
        Probe::ContextNew { .. } => "Context::new",
        Probe::ContextFill { .. } => "Context::fill",
        Probe::ByteWidth { target, .. } => match target {
            0 => "FrameBuf::fill_le_bytes(bytes-per-sample no format has)",
            1 => "Context::fill_le_bytes(bytes-per-sample no format has)",
            2 => "(FrameBuf, Context)::fill_le_bytes(bytes-per-sample no format has)",
            3 => "encode_with_fixed_block_size(single-thread, bytes-per-sample no format has)",
            _ => "encode_with_fixed_block_size(multi-thread, bytes-per-sample no format has)",
        },
    }
}

/// Which argument of the probe is the offending one (for the class key).
fn culprit(p: &Probe) -> String {
    match p {
        Probe::StreamEncode { ch, bps, rate, .. } | Probe::StreamNew { rate, ch, bps } | Probe::StreamInfoNew { rate, ch, bps } => {
            let mut v = Vec::new();
            if ch_class(*ch) != Expect::MustOk {
                v.push("channels");
            }
            if width_class(*bps) == Expect::MustErr {
                v.push("bits_per_sample");
            }
            if rate_class(*rate) == Expect::MustErr {
                v.push("sample_rate");
            }
            if let Probe::StreamEncode { bs, .. } = p {
                if bs_class(*bs) == Expect::MustErr {
                    v.push("block_size");
                }
            }
            v.join("+")
        }
        Probe::FrameBufNew { ch, size } => format!("{}{}", if ch_class(*ch) != Expect::MustOk { "channels" } else { "" }, if bs_class(*size) != Expect::MustOk { "size" } else { "" }),
        Probe::FrameBufFill { bytes_per_sample, .. } => if *bytes_per_sample == 0 { "ints".into() } else { "bytes".into() },
        Probe::ContextFill { bytes_per_sample, .. } => if *bytes_per_sample == 0 { "ints".into() } else { "bytes".into() },
        _ => String::new(),
    }
}

fn check(rep: &Report, local: &mut Local, p: &Probe) {
    local.evals += 1;
    let exp = expectation(p);
    let out = execute(p);
    let cj = || json!({"api_probe": p});
    let k = kind(p);
    local.count(&format!("probes_{k}"), 1);
    match (&out, exp) {
        (Outcome::Panic(_), Expect::NoPanic) => {
            // the statement does not classify this argument: recorded, never judged
            local.outcome(&format!("grey_panic:{k}"));
        }
        (Outcome::Panic(pn), _) => {
            local.outcome("panic");
            rep.violation(&format!("{k}|{}|{}", culprit(p), pn.class()), &format!("{k} panicked for {p:?}: {}", pn.describe()), cj(), 1);
        }
        (Outcome::Ok, Expect::MustErr) => {
            local.outcome("invalid_accepted");
            rep.violation(&format!("{k}|{}|invalid_argument_accepted", culprit(p)), &format!("{k} returned Ok for an argument outside the supported domain: {p:?}"), cj(), 1);
        }
        (Outcome::Err(e), Expect::MustOk) => {
            if e.starts_with("setup:") {
                local.outcome("setup_rejected");
            } else {
                local.outcome("valid_rejected");
                rep.violation(&format!("{k}|valid_argument_rejected"), &format!("{k} returned an error for valid arguments {p:?}: {e}"), cj(), 1);
            }
        }
        (Outcome::Ok, Expect::MustOk) => {
            local.outcome("valid_ok");
        }
        (Outcome::Err(_), Expect::MustErr) => {
            local.outcome("invalid_err");
            local.nontrivial.insert(crate::universe::fnv(&format!("{p:?}")));
        }
        (Outcome::Ok, Expect::NoPanic) => local.outcome("grey_ok"),
        (Outcome::Err(_), Expect::NoPanic) => local.outcome("grey_err"),
    }
}

fn grid_usize(valid: &[usize], min: usize, max: usize) -> Vec<usize> {
    let mut v = vec![0, min.saturating_sub(1), min, max, max + 1, usize::MAX, usize::MAX - 1, 1 << 31, (1 << 31) + 1];
    for &k in valid.iter().chain([0usize, 1].iter()) {
        v.push(256 + k);
        v.push(65536 + k);
        v.push(BIG + k);
    }
    v.extend_from_slice(valid);
    v.sort_unstable();
    v.dedup();
    v
}

pub fn probes() -> Vec<Probe> {
    let mut v = Vec::new();
    let chs = grid_usize(&[1, 2, 8], 1, 8);
    let widths = {
        let mut w = grid_usize(&[8, 16, 24], 8, 24);
        w.extend([4, 7, 9, 12, 13, 20, 25, 26, 31, 32, 33, 64]);
        w.sort_unstable();
        w.dedup();
        w
    };
    let rates = grid_usize(&[44100, 1, 96000], 1, 96000);
    let bss = grid_usize(&[64, 4096], 32, 32767);
    // one argument off the valid point at a time (others valid), ST and MT, both source kinds
    for mt in [false, true] {
        for mem in [true, false] {
            for &ch in &chs {
                v.push(Probe::StreamEncode { ch, bps: 16, rate: 44100, bs: 64, mt, mem_source: mem });
            }
            for &bps in &widths {
                v.push(Probe::StreamEncode { ch: 2, bps, rate: 44100, bs: 64, mt, mem_source: mem });
            }
            for &rate in &rates {
                v.push(Probe::StreamEncode { ch: 2, bps: 16, rate, bs: 64, mt, mem_source: mem });
            }
            for &bs in &bss {
                v.push(Probe::StreamEncode { ch: 2, bps: 16, rate: 44100, bs, mt, mem_source: mem });
            }
        }
        for bps in [8usize, 12, 16, 20, 24] {
            for bad_block in 0..3usize {
                for value in [1i64 << (bps - 1), -(1i64 << (bps - 1)) - 1, i32::MAX as i64, i32::MIN as i64] {
                    for (last_len, ch) in [(0usize, 0usize), (0, 1), (1, 1), (10, 1), (33, 0), (63, 1)] {
                        if last_len > 0 && bad_block != 2 {
                            continue;
                        }
                        v.push(Probe::StreamBadSample { bps, mt, bad_block, value, bytes: false, last_len, ch });
                        if bps % 8 != 0 && value.abs() < (1i64 << (8 * ((bps + 7) / 8) - 1)) {
                            v.push(Probe::StreamBadSample { bps, mt, bad_block, value, bytes: true, last_len, ch });
                        }
                    }
                }
            }
            for fill_bytes in 1..=4usize {
                v.push(Probe::StreamByteMismatch { bps, fill_bytes, mt });
            }
        }
        for extra in [0usize, 1, 63, 64, 65, 1000] {
            for bytes in [false, true] {
                v.push(Probe::StreamOverfill { extra, mt, bytes });
            }
        }
    }
    for n in grid_usize(&[0, 1, 1000], 0, (1usize << 31) - 1) {
        v.push(Probe::FrameNumber { n });
    }
    for fb_ch in [1usize, 2, 3, 8] {
        for info_ch in [1usize, 2, 3, 8] {
            v.push(Probe::FrameInfoMismatch { fb_ch, info_ch, info_bps: 16, data_bps: 16 });
        }
    }
    for ch in [0usize, 1, 2, 8, 9, 255] {
        for bps in [0usize, 4, 8, 16, 17, 24, 28, 32, 40, 255] {
            for rate in [44100usize, 96000, 96001, 192000, 1000000] {
                v.push(Probe::FrameInfoDeserialized { ch, bps, rate });
            }
        }
    }
    for (info_bps, data_bps) in [(8usize, 16usize), (16, 24), (12, 16), (16, 17), (24, 25), (8, 9), (16, 16), (24, 24), (20, 16)] {
        v.push(Probe::FrameInfoMismatch { fb_ch: 2, info_ch: 2, info_bps, data_bps });
    }
    for bps in [8usize, 12, 16, 20, 24] {
        for value in [1i64 << (bps - 1), -(1i64 << (bps - 1)) - 1, i32::MAX as i64, i32::MIN as i64] {
            for channels in [1usize, 2, 3, 8] {
                for ch in [0usize, 1, channels - 1] {
                    if ch >= channels {
                        continue;
                    }
                    for filled in [0usize, 1, 2, 10, 33, 63] {
                        v.push(Probe::FrameBadSample { bps, value, ch, filled, channels });
                    }
                }
            }
        }
    }
    for &ch in &chs {
        v.push(Probe::StreamNew { rate: 44100, ch, bps: 16 });
        v.push(Probe::StreamInfoNew { rate: 44100, ch, bps: 16 });
        v.push(Probe::FrameBufNew { ch, size: 64 });
        v.push(Probe::ContextNew { bps: 16, ch });
    }
    for &bps in &widths {
        v.push(Probe::StreamNew { rate: 44100, ch: 2, bps });
        v.push(Probe::StreamInfoNew { rate: 44100, ch: 2, bps });
        v.push(Probe::ContextNew { bps, ch: 2 });
    }
    for &rate in &rates {
        v.push(Probe::StreamNew { rate, ch: 2, bps: 16 });
        v.push(Probe::StreamInfoNew { rate, ch: 2, bps: 16 });
    }
    for &size in &bss {
        v.push(Probe::FrameBufNew { ch: 2, size });
    }
    // fills: every length 0..=capacity+1, 2*capacity, and lengths that are not multiples of the channel count
    for ch in [1usize, 2, 3, 8] {
        for size in [32usize, 33] {
            let cap = ch * size;
            let mut lens: Vec<usize> = (0..=cap + ch + 1).collect();
            lens.extend([2 * cap, 2 * cap + 1, 10 * cap]);
            for len in lens {
                for bytes_per_sample in 0..=5usize {
                    v.push(Probe::FrameBufFill { ch, size, len, bytes_per_sample });
                }
            }
        }
    }
    // block sizes reaching the frame-level entry point through FrameBuf::resize
    for ch in [1usize, 2] {
        for new_size in [0usize, 1, 16, 31, 32, 63, 64, 65, 4096, 32767, 32768, 40000, 65535, 65536, 65536 + 64] {
            for prefill in [false, true] {
                for fill in [usize::MAX, 0, 1, new_size / 2, new_size, new_size + 1] {
                    for bytes_per_sample in [0usize, 1] {
                        if fill == usize::MAX && bytes_per_sample != 0 {
                            continue;
                        }
                        v.push(Probe::FrameBufResized { ch, prefill, new_size, fill, bytes_per_sample });
                    }
                }
            }
        }
    }
    for target in 0..=4u8 {
        for width in [0usize, 5, 6, 8, 16, 255, 256, 1 << 32, (1 << 32) + 2, usize::MAX / 2 + 2, usize::MAX] {
            for len in [0usize, 1, 4, 24, 240, 256, 257] {
                v.push(Probe::ByteWidth { target, width, len });
            }
        }
    }
    for bps in [8usize, 12, 16, 20, 24, 0, 1, 7, 9, 25, 32] {
        for ch in [1usize, 2, 3, 0, 8, 9, 256, usize::MAX] {
            for len in [0usize, 1, 2, 3, 6, 64usize.saturating_mul(ch).min(4096), 64usize.saturating_mul(ch).min(4096) + 1] {
                for bytes_per_sample in 0..=5usize {
                    v.push(Probe::ContextFill { bps, ch, len, bytes_per_sample });
                }
            }
        }
    }
    v
}

pub fn run(args: &Args, rep: &Arc<Report>) {
    if let Some(p) = &args.replay {
        let s = std::fs::read_to_string(p).unwrap_or_default();
        let v: Value = serde_json::from_str(&s).unwrap_or(Value::Null);
        let c = v.get("case").cloned().unwrap_or(v);
        let probe: Probe = serde_json::from_value(c["api_probe"].clone()).expect("replay file holds no API probe");
        let mut local = Local::default();
        check(rep, &mut local, &probe);
        rep.merge(local);
        rep.set_rule("replay of one recorded probe");
        return;
    }
    let ps = probes();
    let n = ps.len();
    let chunk = 8;
    par_for(
        rep,
        (n + chunk - 1) / chunk,
        Duration::from_secs(120),
        |i| json!({"api_probe": ps[i * chunk]}),
        |i, local| {
            for p in &ps[i * chunk..((i + 1) * chunk).min(n)] {
                check(rep, local, p);
            }
        },
    );
    for p in ps.iter().step_by(n / 4 + 1) {
        rep.sample(json!({"api_probe": p}));
    }
    rep.extra("probes", json!(n));
    rep.set_rule("entry points: encode_with_fixed_block_size (MemSource and a custom source, single- and multi-thread), encode_fixed_size_frame, Stream::new, StreamInfo::new, FrameBuf::with_size, FrameBuf::fill_interleaved / fill_le_bytes, Context::new, Context::fill_* (contexts of 0 / 9 / 256 / usize::MAX channels and of widths no format has included: a fill into a context of 0 channels must be refused, the others must not panic); per argument the grid {0, min-1, min, max, max+1, 2^8+k, 2^16+k, 2^31, 2^32+k, usize::MAX} (k = 0, 1, a valid value) with the other arguments valid; out-of-width samples at each block position and as integers / packed bytes; byte fills with every bytes-per-sample 0..=5 against every declared width; fills of every length 0..=capacity+channels+1 and 2x / 10x capacity; oracle: the statement's invalid classes give Err (not Ok, not panic, not hang), plainly valid arguments give Ok, block sizes reaching encode_fixed_size_frame through FrameBuf::resize (0, 1, 16..65600; with and without an earlier fill); every width other than 8/12/16/20/24 counts as unsupported; unclassified ones (rate 0, lengths not a multiple of the channel count, channel-count disagreement between StreamInfo and FrameBuf) must not panic; non-trivial = an invalid argument answered with Err");
}
