//! C14 - integer and packed-byte sample delivery are equivalent.
//!
//! channels 1..=8 x (width, bytes/sample) x capacity x EVERY fill length 0..=capacity (applied
//! after a full fill, so that stale content would show) x value patterns; frame buffer contents,
//! context (digest / count / frame number), verbatim-coded frames and whole streams compared.
use crate::props::c03::md5ref;
use crate::report::{par_for, Local, Report};
use crate::strictflac::{self, InfoFacts};
use crate::subject::{self, Mode};
use crate::universe::{Case, Cfg, Input};
use crate::{panicx, Args};
use flacenc::bitsink::ByteSink;
use flacenc::component::{BitRepr, StreamInfo};
use flacenc::source::{Context, Fill, FrameBuf};
use serde::{Deserialize, Serialize};
use serde_json::{json, Value};
use std::sync::Arc;
use std::time::Duration;

#[derive(Clone, Debug, Serialize, Deserialize)]
pub struct FillCase {
    pub ch: usize,
    pub bps: usize,
    pub bytes: usize,
    pub cap: usize,
    pub len: usize,
    /// 0 ramp through both extremes, 1 min/max alternation, 2 LCG
    pub pattern: u8,
}

fn value(pattern: u8, bps: usize, i: usize) -> i32 {
    let max = ((1i64 << (bps - 1)) - 1) as i64;
    let min = -(1i64 << (bps - 1));
    let v: i64 = match pattern {
        0 => {
            // ramp that visits min, -1, 0, 1, max and values with every byte non-trivial
            let span = (max - min + 1) as i128;
            let step = (span / 7).max(1) as i128;
            (min as i128 + ((i as i128 * step) % span)) as i64
        }
        1 => {
            if i % 2 == 0 {
                min
            } else {
                max
            }
        }
        _ => {
            let x = (i as u64 + 1).wrapping_mul(6364136223846793005).wrapping_add(1442695040888963407) >> 20;
            min + (x % ((max - min + 1) as u64)) as i64
        }
    };
    v as i32
}

fn samples_for(fc: &FillCase, n: usize, salt: usize) -> Vec<i32> {
    (0..n * fc.ch).map(|i| value(fc.pattern, fc.bps, i + salt)).collect()
}

fn le_bytes(samples: &[i32], bytes: usize) -> Vec<u8> {
    let mut out = Vec::with_capacity(samples.len() * bytes);
    for s in samples {
        out.extend_from_slice(&s.to_le_bytes()[..bytes]);
    }
    out
}

/// Extracts `samples: [...]` and `filled_size` from the Debug rendering of a FrameBuf (the only
/// public view of its contents besides encoding it).
fn framebuf_view(fb: &FrameBuf) -> (Vec<i64>, usize) {
    let d = format!("{fb:?}");
    let a = d.find("samples: [").map(|p| p + "samples: [".len());
    let mut samples = Vec::new();
    if let Some(a) = a {
        let b = d[a..].find(']').map(|p| p + a).unwrap_or(d.len());
        for t in d[a..b].split(',') {
            if let Ok(v) = t.trim().parse::<i64>() {
                samples.push(v);
            }
        }
    }
    let filled = d.find("filled_size: ").and_then(|p| d[p + 13..].split(|c: char| !c.is_ascii_digit()).next().and_then(|s| s.parse().ok())).unwrap_or(usize::MAX);
    (samples, filled)
}

fn verbatim_cfg() -> flacenc::error::Verified<flacenc::config::Encoder> {
    let c = Cfg { use_constant: false, use_fixed: false, use_lpc: false, ls: false, rs: false, ms: false, ..Cfg::default() };
    subject::verified(&c, false, 64).ok().expect("verbatim configuration must verify")
}

fn check_fill(rep: &Report, local: &mut Local, fc: &FillCase) {
    local.evals += 1;
    local.dim(&format!("ch={}", fc.ch));
    local.dim(&format!("bytes={}", fc.bytes));
    let cj = || json!({"fill": fc});
    let w = (fc.cap * fc.ch + fc.len) as u64;
    let full = samples_for(fc, fc.cap, 7);
    let part = samples_for(fc, fc.len, 1000);
    let r = panicx::catch(|| -> Result<(), (String, String)> {
        let mut fi = FrameBuf::with_size(fc.ch, fc.cap).map_err(|e| ("framebuf_new".to_string(), format!("{e:?}")))?;
        let mut fb = FrameBuf::with_size(fc.ch, fc.cap).map_err(|e| ("framebuf_new".to_string(), format!("{e:?}")))?;
        let mut ci = Context::new(fc.bps, fc.ch);
        let mut cb = Context::new(fc.bps, fc.ch);
        for blk in [&full, &part] {
            let bytes = le_bytes(blk, fc.bytes);
            fi.fill_interleaved(blk).map_err(|e| ("fill_error".to_string(), format!("fill_interleaved: {e:?}")))?;
            fb.fill_le_bytes(&bytes, fc.bytes).map_err(|e| ("fill_error".to_string(), format!("fill_le_bytes: {e:?}")))?;
            ci.fill_interleaved(blk).map_err(|e| ("fill_error".to_string(), format!("ctx fill_interleaved: {e:?}")))?;
            cb.fill_le_bytes(&bytes, fc.bytes).map_err(|e| ("fill_error".to_string(), format!("ctx fill_le_bytes: {e:?}")))?;
        }
        let (si, ni) = framebuf_view(&fi);
        let (sb, nb) = framebuf_view(&fb);
        // the Debug rendering is the only public view of the buffer besides encoding it; if its
        // shape ever changes the direct comparison is skipped (the frame-level oracle below remains)
        let readable = si.len() == fc.cap * fc.ch && sb.len() == si.len() && ni != usize::MAX;
        if readable {
            if ni != nb || ni != fc.len {
                return Err(("filled_size".into(), format!("filled size: int path {ni}, byte path {nb}, expected {}", fc.len)));
            }
            if si != sb {
                let at = si.iter().zip(sb.iter()).position(|(a, b)| a != b);
                return Err(("framebuf_differs".into(), format!("frame buffer contents differ between the int and the byte path at index {at:?} (int {:?}, bytes {:?})", at.map(|a| si[a]), at.map(|a| sb[a]))));
            }
            for c in 0..fc.ch {
                for t in 0..fc.len {
                    let want = part[t * fc.ch + c] as i64;
                    if si[c * fc.cap + t] != want {
                        return Err(("framebuf_wrong".into(), format!("channel {c} sample {t}: buffer holds {}, input {want}", si[c * fc.cap + t])));
                    }
                }
            }
        } else if fi.filled_size() != fb.filled_size() || fi.filled_size() != fc.len {
            return Err(("filled_size".into(), format!("filled size: int path {}, byte path {}, expected {}", fi.filled_size(), fb.filled_size(), fc.len)));
        }
        if ci.md5_digest() != cb.md5_digest() {
            return Err(("context_md5".into(), "context MD5 differs between the int and the byte path".into()));
        }
        // the pair (frame buffer, context) the encoder hands to a source: a full block, a block that is one
        // inter-channel sample too long (refused), then the partial block - both deliveries must leave the
        // same state behind at every step, also after the refusal
        {
            let mut pi = (FrameBuf::with_size(fc.ch, fc.cap).map_err(|e| ("framebuf_new".to_string(), format!("{e:?}")))?, Context::new(fc.bps, fc.ch));
            let mut pb = (FrameBuf::with_size(fc.ch, fc.cap).map_err(|e| ("framebuf_new".to_string(), format!("{e:?}")))?, Context::new(fc.bps, fc.ch));
            let over = samples_for(fc, fc.cap + 1, 33);
            for (step, blk) in [&full, &over, &part].into_iter().enumerate() {
                let bytes = le_bytes(blk, fc.bytes);
                let ri = pi.fill_interleaved(blk).is_ok();
                let rb = pb.fill_le_bytes(&bytes, fc.bytes).is_ok();
                if ri != rb {
                    return Err(("pair_result".into(), format!("(FrameBuf, Context) step {step}: int fill ok = {ri}, byte fill ok = {rb}")));
                }
                if step == 1 && ri {
                    return Err(("pair_overfull_accepted".into(), "(FrameBuf, Context): a block one sample longer than the buffer was accepted".into()));
                }
                if pi.1.md5_digest() != pb.1.md5_digest() || pi.1.total_samples() != pb.1.total_samples() || pi.1.current_frame_number() != pb.1.current_frame_number() {
                    return Err(("pair_context_differs".into(), format!("(FrameBuf, Context) after step {step} ({}): context differs between the int and the byte path (count {} vs {}, frame number {:?} vs {:?})", ["full block", "refused over-full block", "partial block"][step], pi.1.total_samples(), pb.1.total_samples(), pi.1.current_frame_number(), pb.1.current_frame_number())));
                }
                if pi.0.filled_size() != pb.0.filled_size() {
                    return Err(("pair_filled_size".into(), format!("(FrameBuf, Context) after step {step}: filled size {} vs {}", pi.0.filled_size(), pb.0.filled_size())));
                }
            }
        }
        let mut all = full.clone();
        all.extend_from_slice(&part);
        if ci.md5_digest() != md5ref(&all, fc.bps) {
            return Err(("context_md5_wrong".into(), "context MD5 differs from the MD5 of the LE serialisation of the samples".into()));
        }
        if ci.total_samples() != cb.total_samples() || ci.total_samples() != fc.cap + fc.len {
            return Err(("context_count".into(), format!("sample count: int {}, bytes {}, expected {}", ci.total_samples(), cb.total_samples(), fc.cap + fc.len)));
        }
        if ci.current_frame_number() != cb.current_frame_number() {
            return Err(("context_frame_number".into(), format!("frame number: int {:?}, bytes {:?}", ci.current_frame_number(), cb.current_frame_number())));
        }
        // verbatim frame from each buffer (supported stream widths only, non-empty fill)
        if fc.bps <= 24 && fc.len > 0 {
            let cfg = verbatim_cfg();
            let info = StreamInfo::new(44100, fc.ch, fc.bps).map_err(|e| ("machinery".to_string(), format!("{e:?}")))?;
            let mut outs = Vec::new();
            for (name, buf) in [("int", &fi), ("bytes", &fb)] {
                let fr = flacenc::encode_fixed_size_frame(&cfg, buf, 0, &info).map_err(|e| ("frame_encode_error".to_string(), format!("{name}: {e:?}")))?;
                let mut sink = ByteSink::new();
                fr.write(&mut sink).map_err(|e| ("frame_encode_error".to_string(), format!("{name}: {e:?}")))?;
                outs.push(sink.into_inner());
            }
            if outs[0] != outs[1] {
                return Err(("frame_bytes_differ".into(), "the frame encoded from the int-filled buffer differs from the one encoded from the byte-filled buffer".into()));
            }
            let facts = InfoFacts { rate: 44100, channels: fc.ch as u32, bps: fc.bps as u32, ..Default::default() };
            let (ff, chans, _) = strictflac::parse_single_frame(&outs[0], &facts).map_err(|e| ("frame_unparsable".to_string(), e))?;
            if ff.block_size != fc.len {
                return Err(("frame_block_size".into(), format!("frame holds {} samples, {} were filled", ff.block_size, fc.len)));
            }
            for c in 0..fc.ch {
                for t in 0..fc.len {
                    if chans[c][t] != part[t * fc.ch + c] as i64 {
                        return Err(("frame_samples".into(), format!("decoded channel {c} sample {t} = {}, input {}", chans[c][t], part[t * fc.ch + c])));
                    }
                }
            }
        }
        Ok(())
    });
    match r {
        Ok(Ok(())) => {
            local.outcome("ok");
            local.count("fills_compared", 1);
            if fc.len > 0 && fc.len < fc.cap {
                local.nontrivial.insert(crate::universe::fnv(&format!("{fc:?}")));
            }
        }
        Ok(Err((class, what))) => {
            local.outcome(&class);
            if class == "machinery" {
                rep.machinery_error(&what);
            } else {
                rep.violation(&class, &what, cj(), w);
            }
        }
        Err(p) => {
            local.outcome("panic");
            rep.violation(&p.class(), &format!("panic: {}", p.describe()), cj(), w);
        }
    }
}

/// One fill sequence on the pair (FrameBuf, Context) the encoder hands to a source: `lens[i]` inter-channel
/// samples are delivered at step i as integers (kind bit 0) or as packed bytes (kind bit 1).
#[derive(Clone, Debug, Serialize, Deserialize)]
pub struct SeqCase {
    pub ch: usize,
    pub bps: usize,
    pub bytes: usize,
    pub cap: usize,
    pub lens: Vec<usize>,
    pub kinds: u32,
    pub pattern: u8,
    /// `FrameBuf::resize(resize[i])` is called before step i (0 = no call; empty = never)
    #[serde(default)]
    pub resize: Vec<usize>,
}

/// Reference model of the pair: the frame buffer holds the last accepted block, the context the
/// concatenation of all accepted blocks; a block longer than the buffer is refused and changes nothing;
/// an empty block empties the buffer and is not counted as a frame.
fn check_fill_sequence(rep: &Report, local: &mut Local, sc: &SeqCase) {
    local.evals += 1;
    let cj = || json!({"fill_sequence": sc});
    let w = (sc.lens.iter().sum::<usize>() * sc.ch) as u64;
    let fc = FillCase { ch: sc.ch, bps: sc.bps, bytes: sc.bytes, cap: sc.cap, len: 0, pattern: sc.pattern };
    let r = panicx::catch(|| -> Result<(), (String, String)> {
        let mut pair = (FrameBuf::with_size(sc.ch, sc.cap).map_err(|e| ("framebuf_new".to_string(), format!("{e:?}")))?, Context::new(sc.bps, sc.ch));
        let mut m_last: Vec<i32> = Vec::new();
        let mut m_all: Vec<i32> = Vec::new();
        let mut m_frames = 0usize;
        // capacity of the buffer (changed by resize) and whether the model knows the buffer's contents
        // (what a resize leaves of an earlier fill is not specified)
        let mut cap = sc.cap;
        let mut known = true;
        for (step, &len) in sc.lens.iter().enumerate() {
            if let Some(&r) = sc.resize.get(step) {
                if r > 0 {
                    pair.0.resize(r);
                    cap = r;
                    known = false;
                    if pair.0.filled_size() > cap {
                        return Err(("seq_resize_filled_size".into(), format!("after resize({r}) before step {step} the buffer reports {} filled samples", pair.0.filled_size())));
                    }
                }
            }
            let blk = samples_for(&fc, len, 1000 * step + 7);
            let as_bytes = sc.kinds >> step & 1 == 1;
            let kind = if as_bytes { "byte" } else { "int" };
            let res = if as_bytes { pair.fill_le_bytes(&le_bytes(&blk, sc.bytes), sc.bytes) } else { pair.fill_interleaved(&blk) };
            let accept = len <= cap;
            if res.is_ok() != accept {
                return Err((format!("seq_result|{kind}"), format!("step {step}: {kind} fill of {len} samples into a buffer of {cap} (created with {}, resizes {:?}) returned ok = {}", sc.cap, sc.resize, res.is_ok())));
            }
            if accept {
                known = true;
                m_last = blk.clone();
                if len > 0 {
                    m_all.extend_from_slice(&blk);
                    m_frames += 1;
                }
            }
            let here = format!("after step {step} ({kind} fill of {len}; lengths {:?}, kinds {:#b}, resizes {:?})", sc.lens, sc.kinds, sc.resize);
            let filled = m_last.len() / sc.ch;
            if known && pair.0.filled_size() != filled {
                return Err((format!("seq_filled_size|{kind}"), format!("{here}: filled size {}, model {filled}", pair.0.filled_size())));
            }
            let (view, _) = framebuf_view(&pair.0);
            if known && view.len() == cap * sc.ch {
                for c in 0..sc.ch {
                    for t in 0..filled {
                        if view[c * cap + t] != m_last[t * sc.ch + c] as i64 {
                            return Err((format!("seq_framebuf_wrong|{kind}"), format!("{here}: channel {c} sample {t} holds {}, model {}", view[c * cap + t], m_last[t * sc.ch + c])));
                        }
                    }
                }
            }
            if pair.1.total_samples() != m_all.len() / sc.ch {
                return Err((format!("seq_context_count|{kind}"), format!("{here}: context counts {} samples, model {}", pair.1.total_samples(), m_all.len() / sc.ch)));
            }
            let fnum = if m_frames > 0 { Some(m_frames - 1) } else { None };
            if pair.1.current_frame_number() != fnum {
                return Err((format!("seq_context_frame_number|{kind}"), format!("{here}: frame number {:?}, model {fnum:?}", pair.1.current_frame_number())));
            }
            if pair.1.md5_digest() != md5ref(&m_all, sc.bps) {
                return Err((format!("seq_context_md5|{kind}"), format!("{here}: context MD5 differs from the MD5 of the accepted blocks")));
            }
        }
        // the frame encoded from the final buffer holds the last accepted block
        let filled = m_last.len() / sc.ch;
        if sc.bps <= 24 && filled > 0 && known {
            let cfg = verbatim_cfg();
            let info = StreamInfo::new(44100, sc.ch, sc.bps).map_err(|e| ("machinery".to_string(), format!("{e:?}")))?;
            let fr = flacenc::encode_fixed_size_frame(&cfg, &pair.0, 0, &info).map_err(|e| ("seq_frame_encode_error".to_string(), format!("{e:?}")))?;
            let mut sink = ByteSink::new();
            fr.write(&mut sink).map_err(|e| ("seq_frame_encode_error".to_string(), format!("{e:?}")))?;
            let facts = InfoFacts { rate: 44100, channels: sc.ch as u32, bps: sc.bps as u32, ..Default::default() };
            let (ff, chans, _) = strictflac::parse_single_frame(&sink.into_inner(), &facts).map_err(|e| ("seq_frame_unparsable".to_string(), e))?;
            if ff.block_size != filled {
                return Err(("seq_frame_block_size".into(), format!("frame holds {} samples, the last accepted block {filled} (lengths {:?}, kinds {:#b})", ff.block_size, sc.lens, sc.kinds)));
            }
            for c in 0..sc.ch {
                for t in 0..filled {
                    if chans[c][t] != m_last[t * sc.ch + c] as i64 {
                        return Err(("seq_frame_samples".into(), format!("decoded channel {c} sample {t} = {}, last accepted block {} (lengths {:?}, kinds {:#b})", chans[c][t], m_last[t * sc.ch + c], sc.lens, sc.kinds)));
                    }
                }
            }
        }
        Ok(())
    });
    match r {
        Ok(Ok(())) => {
            local.outcome("seq_ok");
            if sc.lens.len() >= 2 && sc.kinds != 0 && sc.kinds != (1 << sc.lens.len()) - 1 {
                local.nontrivial.insert(crate::universe::fnv(&format!("{sc:?}")));
            }
        }
        Ok(Err((class, what))) => {
            local.outcome(&class);
            if class == "machinery" {
                rep.machinery_error(&what);
            } else {
                rep.violation(&class, &what, cj(), w);
            }
        }
        Err(p) => {
            local.outcome("panic");
            rep.violation(&p.class(), &format!("panic: {}", p.describe()), cj(), w);
        }
    }
}

/// Every fill sequence of length 1..=depth over the length alphabet {0, 1, 2, cap/2, cap-1, cap, cap+1} x
/// every assignment of the two deliveries to the steps.
fn seq_cases(thorough: bool) -> Vec<SeqCase> {
    let depth = if thorough { 4 } else { 3 };
    let mut v = Vec::new();
    for ch in 1..=8usize {
        for &(bps, bytes) in &[(8usize, 1usize), (12, 2), (16, 2), (20, 3), (24, 3), (32, 4)] {
            for &cap in &[32usize, 33] {
                let alpha = [0, 1, 2, cap / 2, cap - 1, cap, cap + 1];
                for pattern in 0..if thorough { 2u8 } else { 1 } {
                    for l in 1..=depth {
                        let n = alpha.len().pow(l as u32);
                        for i in 0..n {
                            let mut x = i;
                            let lens: Vec<usize> = (0..l).map(|_| { let a = alpha[x % alpha.len()]; x /= alpha.len(); a }).collect();
                            for kinds in 0..(1u32 << l) {
                                v.push(SeqCase { ch, bps, bytes, cap, lens: lens.clone(), kinds, pattern, resize: Vec::new() });
                                // at most one call of FrameBuf::resize in the sequence, before any step, to a
                                // larger and to a smaller buffer (sequences of length 2 and more)
                                if l >= 2 && (ch <= 3 || ch == 8) {
                                    for at in 0..l {
                                        for new in [cap + 7, cap / 2] {
                                            let mut resize = vec![0usize; l];
                                            resize[at] = new;
                                            v.push(SeqCase { ch, bps, bytes, cap, lens: lens.clone(), kinds, pattern, resize });
                                        }
                                    }
                                }
                            }
                        }
                    }
                }
            }
        }
    }
    v
}

fn fill_cases(thorough: bool) -> Vec<FillCase> {
    let mut v = Vec::new();
    let caps: &[usize] = if thorough { &[32, 33, 64, 100, 192] } else { &[32, 33, 64, 100] };
    for ch in 1..=8usize {
        for &(bps, bytes) in &[(8usize, 1usize), (12, 2), (16, 2), (20, 3), (24, 3), (32, 4)] {
            for &cap in caps {
                for len in 0..=cap {
                    for pattern in 0..3u8 {
                        if !thorough && pattern == 2 && len % 3 != 0 {
                            continue;
                        }
                        v.push(FillCase { ch, bps, bytes, cap, len, pattern });
                    }
                }
            }
        }
    }
    v
}

/// Whole streams: integer source vs byte source, ST and MT.
fn stream_cases() -> Vec<Case> {
    let mut v = Vec::new();
    for ch in 1..=8u8 {
        for &bps in &[8u8, 12, 16, 20, 24] {
            for &(bs, full, tail) in &[(32u32, 2u8, 0u32), (33, 1, 32), (64, 2, 1), (100, 1, 99)] {
                for &a in &[4u8, 10, 22] {
                    v.push(Case { input: Input { ch, bps, rate: 48000, bs, full: full.into(), tail, atoms: [a, a, a, a], rel: 0, delivery: 1, seed: 0 }, cfg: Cfg::default() });
                }
            }
        }
    }
    // long streams of small blocks, every block different: more blocks than any queue of the multi-thread
    // mode holds (with 16 and 64 workers the hashing thread falls a full queue behind)
    for &(ch, bps, bs) in &[(1u8, 24u8, 32u32), (2, 16, 32), (1, 8, 32), (3, 12, 33)] {
        v.push(Case { input: Input { ch, bps, rate: 48000, bs, full: 400, tail: 7, atoms: [19, 19, 19, 19], rel: 0, delivery: 1, seed: 0 }, cfg: Cfg::default() });
    }
    v
}

fn check_stream(rep: &Report, local: &mut Local, case: &Case) {
    local.evals += 1;
    let samples = case.input.samples();
    let mut outs: Vec<(String, Vec<u8>)> = Vec::new();
    let long = case.input.full >= 100;
    for delivery in [1u8, 2] {
        for (mode, workers) in [(Mode::St, 2u8), (Mode::Mt, 2), (Mode::Frame, 2), (Mode::Mt, 16), (Mode::Mt, 64)] {
            if workers > 2 && !long {
                continue;
            }
            let mut c = case.clone();
            c.input.delivery = delivery;
            c.cfg.workers = workers;
            match subject::encode_bytes(&c, &samples, mode) {
                Ok((_, b)) => outs.push((format!("{}{}/{}", mode.name(), if workers > 2 { format!("(workers {workers})") } else { String::new() }, if delivery == 1 { "ints" } else { "bytes" }), b)),
                Err(e) => rep.violation_x(mode == Mode::Mt, &format!("encode_fail|{}", e.class()), &format!("{}: {}", mode.name(), e.describe()), c.json(), c.weight()),
            }
        }
    }
    if let Some((l0, b0)) = outs.first() {
        for (l, b) in &outs[1..] {
            if b != b0 {
                let at = b.iter().zip(b0.iter()).position(|(x, y)| x != y);
                rep.violation(
                    if at.map_or(false, |a| a < 42) { "stream_differs|streaminfo" } else { "stream_differs|frames" },
                    &format!("stream bytes differ between {l0} and {l} at byte {at:?}"),
                    case.json(),
                    case.weight(),
                );
            }
        }
        local.nontrivial.insert(case.id());
    }
    local.outcome("stream_done");
}

pub fn run(args: &Args, rep: &Arc<Report>) {
    let thorough = args.tier == "thorough";
    if let Some(p) = &args.replay {
        let s = std::fs::read_to_string(p).unwrap_or_default();
        let v: Value = serde_json::from_str(&s).unwrap_or(Value::Null);
        let c = v.get("case").cloned().unwrap_or(v);
        let mut local = Local::default();
        if let Some(f) = c.get("fill_sequence") {
            let sc: SeqCase = serde_json::from_value(f.clone()).expect("bad fill sequence");
            check_fill_sequence(rep, &mut local, &sc);
        } else if let Some(f) = c.get("fill") {
            let fc: FillCase = serde_json::from_value(f.clone()).expect("bad fill case");
            check_fill(rep, &mut local, &fc);
        } else {
            let case: Case = serde_json::from_value(c).expect("bad case");
            check_stream(rep, &mut local, &case);
        }
        rep.merge(local);
        rep.set_rule("replay of one recorded case");
        return;
    }
    let fcs = fill_cases(thorough);
    let n = fcs.len();
    let chunk = 64;
    par_for(
        rep,
        (n + chunk - 1) / chunk,
        Duration::from_secs(300),
        |i| json!({"fill": fcs[i * chunk]}),
        |i, local| {
            for fc in &fcs[i * chunk..((i + 1) * chunk).min(n)] {
                if rep.want_sample() {
                    rep.sample(json!({"fill": fc}));
                }
                check_fill(rep, local, fc);
            }
        },
    );
    let sqs = seq_cases(thorough);
    let nq = sqs.len();
    let qchunk = 512;
    par_for(
        rep,
        (nq + qchunk - 1) / qchunk,
        Duration::from_secs(300),
        |i| json!({"fill_sequence": sqs[i * qchunk]}),
        |i, local| {
            for sc in &sqs[i * qchunk..((i + 1) * qchunk).min(nq)] {
                check_fill_sequence(rep, local, sc);
            }
        },
    );
    rep.sample(json!({"fill_sequence": sqs[nq / 3]}));
    rep.extra("fill_sequences", json!(nq));
    rep.extra("fill_sequence_depth_completed", json!(if thorough { 4 } else { 3 }));
    let scs = stream_cases();
    let m = scs.len();
    par_for(
        rep,
        (m + 7) / 8,
        Duration::from_secs(300),
        |i| scs[i * 8].json(),
        |i, local| {
            for c in &scs[i * 8..((i + 1) * 8).min(m)] {
                local.set_current(c);
                check_stream(rep, local, c);
            }
        },
    );
    rep.extra("fill_cases", json!(n));
    rep.extra("stream_cases", json!(m));
    rep.set_rule("fill level: channels 1..=8 x (width,bytes/sample){(8,1),(12,2),(16,2),(20,3),(24,3),(32,4)} x capacity{32,33,64,100(,192)} x EVERY fill length 0..=capacity applied after a full fill x patterns{ramp through both extremes, min/max alternation, LCG}: FrameBuf contents (whole buffer, both paths; filled part vs input), filled size, Context digest (vs the harness's LE serialisation), sample count, frame number, and the verbatim-coded frame from each buffer decoded by the reference decoder; sequence level: on the pair (FrameBuf, Context) every fill sequence of length 1..=3 (thorough: 4) over the block lengths {0, 1, 2, cap/2, cap-1, cap, cap+1 (refused)} x EVERY assignment of the two deliveries to the steps, channels 1..=8 x 6 widths x capacity {32,33}, judged after every step against a reference model (buffer = last accepted block, context = all accepted blocks; a refused block changes nothing, an empty one is no frame; with at most one FrameBuf::resize to a larger / smaller buffer before any step, after which the capacity is the new one and the contents are unspecified until the next accepted block) and at the end through the frame encoded from the buffer; stream level: channels 1..=8 x 5 widths x 4 shapes x 3 atoms, plus four streams of 400 small blocks that all differ (multi-thread mode also with 16 and 64 workers: real threads, one OS schedule per encode): integer source vs byte source x {ST, MT, frame-level} byte-identical; non-trivial = a partial fill (0 < len < capacity) or a stream comparison");
}
