//! Shared driver for the properties that quantify over the universe of (input, configuration).
use crate::report::{par_for, Local, Report};
use crate::universe::{self, Case, Universe};
use crate::Args;
use serde_json::json;
use std::sync::Arc;
use std::time::Duration;

pub fn experimental() -> bool {
    cfg!(feature = "experimental")
}

pub fn load_replay_case(path: &str) -> Case {
    let s = std::fs::read_to_string(path).unwrap_or_else(|e| {
        eprintln!("cannot read replay file {path}: {e}");
        std::process::exit(2)
    });
    let v: serde_json::Value = serde_json::from_str(&s).expect("replay file is not JSON");
    let c = v.get("case").cloned().unwrap_or(v);
    serde_json::from_value(c).expect("replay file does not hold a universe case")
}

pub struct Group {
    pub name: &'static str,
    pub cases: Vec<Case>,
    pub describe: String,
}

fn base_case(i: usize) -> Case {
    universe::decode(&universe::base_points()[i])
}

/// G1: width x atom x relation x LPC order x precision x window (the i32/i64 residual switch).
pub fn g1(bases: &[usize]) -> Group {
    let mut cases = Vec::new();
    for &b in bases {
        let base = base_case(b);
        for &bps in universe::BPS.iter() {
            for a in 0..crate::atoms::N_ATOMS {
                for rel in 0..crate::atoms::N_RELS {
                    if base.input.ch < 2 && rel > 0 {
                        continue;
                    }
                    for &lo in universe::LPC_ORDERS.iter() {
                        for &pr in universe::PRECISIONS.iter() {
                            for &w in universe::WINDOWS.iter() {
                                let mut c = base.clone();
                                c.input.bps = bps;
                                c.input.atoms[0] = a as u8;
                                c.input.rel = rel as u8;
                                c.cfg.lpc_order = lo;
                                c.cfg.precision = pr;
                                c.cfg.window = w;
                                cases.push(c);
                            }
                        }
                    }
                }
            }
        }
    }
    Group {
        name: "G1",
        describe: format!(
            "G1: full product bps(5) x atom of block 0 (31) x relation(6) x lpc_order(6) x precision(5) x window(5) at base points {bases:?}"
        ),
        cases,
    }
}

/// GS: stereo switches (8) x relation x width x atom.
pub fn gs(bases: &[usize]) -> Group {
    let mut cases = Vec::new();
    for &b in bases {
        let base = base_case(b);
        for sw in 0..8u8 {
            for rel in 0..crate::atoms::N_RELS {
                for &bps in universe::BPS.iter() {
                    for a in 0..crate::atoms::N_ATOMS {
                        let mut c = base.clone();
                        c.input.ch = 2;
                        c.cfg.ls = sw & 1 != 0;
                        c.cfg.rs = sw & 2 != 0;
                        c.cfg.ms = sw & 4 != 0;
                        c.input.rel = rel as u8;
                        c.input.bps = bps;
                        c.input.atoms[0] = a as u8;
                        cases.push(c);
                    }
                }
            }
        }
    }
    Group {
        name: "GS",
        describe: format!("GS: full product stereo switches(8) x relation(6) x bps(5) x atom of block 0 (31) at base points {bases:?}, 2 channels"),
        cases,
    }
}

/// GH: sample-rate list x block-size list x width (header code classes).
pub fn gh() -> Group {
    let mut cases = Vec::new();
    let base = base_case(0);
    for &rate in universe::RATES.iter() {
        for &bs in universe::BLOCK_SIZES.iter() {
            for &bps in universe::BPS.iter() {
                let mut c = base.clone();
                c.input.rate = rate;
                c.input.bs = bs;
                c.input.bps = bps;
                c.input.full = 1;
                c.input.tail = 17;
                // cheap content for the big block sizes
                if bs >= 4096 {
                    c.input.atoms = [13, 13, 13, 13];
                    c.cfg.use_lpc = false;
                }
                cases.push(c);
            }
        }
    }
    Group { name: "GH", describe: "GH: full product rate(19) x block size(19) x bps(5), mono, one full block + 17 samples".into(), cases }
}

/// GL: block lengths at every block-size code class of the frame header (576 * 2^n and 256 * 2^n also
/// beyond the values that have a code of their own, their neighbours, the 8-/16-bit explicit classes),
/// each as a lone short frame under block size 32767 and as the configured block size.
pub fn gl() -> Group {
    let mut lens: Vec<u32> = vec![1, 2, 15, 16, 17, 31, 32, 33, 191, 192, 193, 255, 257, 65, 1000, 32766, 32767];
    for k in 0..=7u32 {
        for base in [576u32, 256] {
            let v = base << k;
            for l in [v - 1, v, v + 1] {
                if l <= 32767 {
                    lens.push(l);
                }
            }
        }
    }
    lens.sort_unstable();
    lens.dedup();
    let mut cases = Vec::new();
    let base = base_case(0);
    for &l in &lens {
        for &(bps, ch) in &[(16u8, 1u8), (24, 2)] {
            let mut c = base.clone();
            c.input.bps = bps;
            c.input.ch = ch;
            c.input.atoms = [13, 13, 13, 13];
            c.cfg.use_lpc = false;
            c.input.bs = 32767;
            c.input.full = 0;
            c.input.tail = l;
            cases.push(c.clone());
            if l >= 32 && l <= 4700 {
                c.input.bs = l;
                c.input.full = 2;
                c.input.tail = 5;
                cases.push(c);
            }
        }
    }
    Group { name: "GL", describe: format!("GL: block lengths {lens:?} as a lone short frame under block size 32767 and (up to 4700) as the block size itself, mono 16 bit and stereo 24 bit"), cases }
}

pub const G9_ATOMS: [u8; 11] = [20, 21, 22, 23, 4, 18, 26, 24, 28, 29, 30];

/// G9: width{16,20,24} x loud atoms x Rice cap 0..=14 x order selection x {fixed,lpc} x channel setups x block size.
pub fn g9(block_sizes: &[u32]) -> Group {
    let mut cases = Vec::new();
    let base = base_case(1);
    for &bps in &[16u8, 20, 24] {
        for &a in G9_ATOMS.iter() {
            for mp in 0..=14u8 {
                for &os in &[0u8, 1, 16, 64] {
                    for sw in 0..4u8 {
                        for chsetup in 0..7u8 {
                            for &bs in block_sizes {
                                let mut c = base.clone();
                                c.input.bps = bps;
                                c.input.atoms = [a, a, 0, a];
                                c.cfg.max_param = mp;
                                c.cfg.order_sel = os;
                                c.cfg.use_fixed = sw & 1 != 0;
                                c.cfg.use_lpc = sw & 2 != 0;
                                if chsetup == 0 {
                                    c.input.ch = 1;
                                    c.input.rel = 0;
                                } else {
                                    c.input.ch = 2;
                                    c.input.rel = chsetup - 1;
                                }
                                c.input.bs = bs;
                                c.input.full = 1;
                                c.input.tail = if bs >= 576 { 0 } else { 70 };
                                cases.push(c);
                            }
                        }
                    }
                }
            }
        }
    }
    Group {
        name: "G9",
        describe: format!(
            "G9: full product bps{{16,20,24}} x atoms{G9_ATOMS:?} x max_parameter 0..=14 x order_sel{{BitCount,AE1,AE16,AE64}} x (use_fixed,use_lpc)(4) x channel setups(mono + 6 stereo relations) x block sizes {block_sizes:?}"
        ),
        cases,
    }
}

/// GN: narrow widths, where a Rice parameter can be as wide as the samples: bps{8,12} x content with a
/// full-scale alternating stretch / square waves / noise bursts x Rice cap x order selection x
/// predictor switches x mono/stereo x block sizes.
pub fn gn() -> Group {
    let mut cases = Vec::new();
    let base = base_case(1);
    for &bps in &[8u8, 12] {
        for &a in &[33u8, 4, 11, 27, 24, 30] {
            for &mp in &[14u8, 13, 9, 8, 7, 6, 3, 0] {
                for &os in &[0u8, 16] {
                    for sw in 1..4u8 {
                        for &(ch, rel) in &[(1u8, 0u8), (2, 0), (2, 2)] {
                            for &bs in &[192u32, 256, 4096] {
                                let mut c = base.clone();
                                c.input.bps = bps;
                                c.input.atoms = [a, a, 0, a];
                                c.cfg.max_param = mp;
                                c.cfg.order_sel = os;
                                c.cfg.use_fixed = sw & 1 != 0;
                                c.cfg.use_lpc = sw & 2 != 0;
                                c.input.ch = ch;
                                c.input.rel = rel;
                                c.input.bs = bs;
                                c.input.full = 1;
                                c.input.tail = if bs >= 576 { 0 } else { 130 };
                                cases.push(c);
                            }
                        }
                    }
                }
            }
        }
    }
    Group { name: "GN", describe: "GN: full product bps{8,12} x atoms{33 (full-scale alternating stretch in a quiet block),4,11,27,24,30} x max_parameter{14,13,9,8,7,6,3,0} x order_sel{BitCount,AE16} x (use_fixed,use_lpc)(3) x {mono, stereo, inverted stereo} x block sizes{192,256,4096}".to_string(), cases }
}

/// GW: blocks that open with a few samples near the extremes and are quiet afterwards (atoms 34 / 35): the
/// block maximum lies in the warm-up positions of the predictor. Widths x LPC order x precision x window x
/// {mono, inverted stereo} x block sizes, LPC as the only predictor and together with the fixed ones.
pub fn gw() -> Group {
    let mut cases = Vec::new();
    let base = base_case(2);
    for &bps in &[16u8, 20, 24] {
        for &a in &[34u8, 35] {
            for &lo in universe::LPC_ORDERS.iter() {
                for &pr in universe::PRECISIONS.iter() {
                    for &w in &[universe::WINDOWS[0], universe::WINDOWS[3]] {
                        for &(ch, rel) in &[(1u8, 0u8), (2, 2)] {
                            for &bs in &[64u32, 192, 4096] {
                                for use_fixed in [false, true] {
                                    if bs == 4096 && (use_fixed || ch == 2) {
                                        continue;
                                    }
                                    let mut c = base.clone();
                                    c.input.bps = bps;
                                    c.input.atoms = [a, a, a, a];
                                    c.cfg.lpc_order = lo;
                                    c.cfg.precision = pr;
                                    c.cfg.window = w;
                                    c.cfg.use_fixed = use_fixed;
                                    c.cfg.use_lpc = true;
                                    c.input.ch = ch;
                                    c.input.rel = rel;
                                    c.input.bs = bs;
                                    c.input.full = if bs == 4096 { 1 } else { 2 };
                                    c.input.tail = if bs == 4096 { 0 } else { 33 };
                                    cases.push(c);
                                }
                            }
                        }
                    }
                }
            }
        }
    }
    Group { name: "GW", describe: "GW: full product bps{16,20,24} x atoms{34,35 (8 / 3 samples near the extremes at the start of every block, quiet afterwards)} x lpc_order(6) x precision(5) x window{Rectangle, Tukey 0.4} x {mono, inverted stereo} x block sizes{64,192,4096} x use_fixed(2), LPC enabled".to_string(), cases }
}

/// Runs `f` on every case of U_d plus the given dense groups (or on the single replay case).
pub fn drive<F>(args: &Args, rep: &Arc<Report>, d: usize, restrict_large: bool, groups: Vec<Group>, f: F)
where
    F: Fn(&Case, &[String], &mut Local) + Sync,
{
    if let Some(p) = &args.replay {
        let case = load_replay_case(p);
        let mut local = Local::default();
        f(&case, &["replay".to_string()], &mut local);
        rep.merge(local);
        rep.set_rule("replay of a single recorded case");
        return;
    }
    let uni = Universe::new(d, experimental(), restrict_large);
    rep.add_rule(&uni.describe());
    let nshards = uni.shards.len();
    let counter = std::sync::atomic::AtomicU64::new(0);
    par_for(
        rep,
        nshards,
        Duration::from_secs(300),
        |i| json!({"shard": format!("{:?}", uni.shards[i])}),
        |i, local| {
            let shard = &uni.shards[i];
            let basep = uni.bases[shard.base];
            uni.for_each_in_shard(shard, |p| {
                let case = universe::decode(p);
                let labels = universe::deviation_labels(p, &basep, uni.ncoords);
                local.set_current(&case);
                f(&case, &labels, local);
                counter.fetch_add(1, std::sync::atomic::Ordering::Relaxed);
            });
        },
    );
    rep.extra("universe_cases", json!(counter.load(std::sync::atomic::Ordering::SeqCst)));
    rep.extra("universe_shards", json!(nshards));
    for g in groups {
        rep.add_rule(&g.describe);
        let n = g.cases.len();
        let chunk = 64;
        let nchunks = (n + chunk - 1) / chunk;
        let label = vec![g.name.to_string()];
        par_for(
            rep,
            nchunks,
            Duration::from_secs(300),
            |i| g.cases[i * chunk].json(),
            |i, local| {
                for c in &g.cases[i * chunk..((i + 1) * chunk).min(n)] {
                    local.set_current(c);
                    f(c, &label, local);
                }
            },
        );
        rep.extra(&format!("group_{}_cases", g.name), json!(n));
    }
}
