//! C19 - configuration TOML round-trips; omitted fields take the documented defaults; a parsed
//! configuration verifies exactly like the in-memory value.
use super::c07::{all_configs, out_of_range, FullCfg};
use crate::report::{par_for, Local, Report};
use crate::{panicx, Args};
use flacenc::config;
use flacenc::error::Verify;
use serde_json::{json, Value};
use std::sync::Arc;
use std::time::Duration;

/// The 19 leaf keys, in document order.
pub const LEAVES: [&str; 19] = [
    "block_size",
    "multithread",
    "workers",
    "stereo_coding.use_leftside",
    "stereo_coding.use_rightside",
    "stereo_coding.use_midside",
    "subframe_coding.use_constant",
    "subframe_coding.use_fixed",
    "subframe_coding.use_lpc",
    "subframe_coding.fixed.max_order",
    "subframe_coding.fixed.order_sel.type",
    "subframe_coding.fixed.order_sel.partitions",
    "subframe_coding.qlpc.lpc_order",
    "subframe_coding.qlpc.quant_precision",
    "subframe_coding.qlpc.use_direct_mse",
    "subframe_coding.qlpc.mae_optimization_steps",
    "subframe_coding.qlpc.window.type",
    "subframe_coding.qlpc.window.alpha",
    "subframe_coding.prc.max_parameter",
];

const SECTIONS: [&str; 7] = [
    "stereo_coding",
    "subframe_coding",
    "subframe_coding.fixed",
    "subframe_coding.fixed.order_sel",
    "subframe_coding.qlpc",
    "subframe_coding.qlpc.window",
    "subframe_coding.prc",
];

/// Documented defaults (doc comments of `config`; `multithread` defaults to true with feature `par`,
/// which this engine is built with).
pub fn documented_defaults() -> FullCfg {
    FullCfg {
        block_size: 4096,
        multithread: true,
        workers: 0,
        ls: true,
        rs: true,
        ms: true,
        use_constant: true,
        use_fixed: true,
        use_lpc: true,
        fixed_max_order: 4,
        approx_ent_partitions: Some(16),
        lpc_order: 10,
        precision: 15,
        tukey_alpha_bits: Some(0.4f32.to_bits()),
        max_param: 14,
        direct_mse: false,
        mae_steps: 0,
    }
}

fn leaf_text(c: &FullCfg, i: usize) -> Option<String> {
    Some(match i {
        0 => format!("block_size = {}", c.block_size),
        1 => format!("multithread = {}", c.multithread),
        2 => {
            if c.workers == 0 {
                return None;
            }
            format!("workers = {}", c.workers)
        }
        3 => format!("use_leftside = {}", c.ls),
        4 => format!("use_rightside = {}", c.rs),
        5 => format!("use_midside = {}", c.ms),
        6 => format!("use_constant = {}", c.use_constant),
        7 => format!("use_fixed = {}", c.use_fixed),
        8 => format!("use_lpc = {}", c.use_lpc),
        9 => format!("max_order = {}", c.fixed_max_order),
        10 => format!("type = \"{}\"", if c.approx_ent_partitions.is_some() { "ApproxEnt" } else { "BitCount" }),
        11 => format!("partitions = {}", c.approx_ent_partitions?),
        12 => format!("lpc_order = {}", c.lpc_order),
        13 => format!("quant_precision = {}", c.precision),
        14 => format!("use_direct_mse = {}", c.direct_mse),
        15 => format!("mae_optimization_steps = {}", c.mae_steps),
        16 => format!("type = \"{}\"", if c.tukey_alpha_bits.is_some() { "Tukey" } else { "Rectangle" }),
        17 => {
            let a = f32::from_bits(c.tukey_alpha_bits?);
            // shortest text that parses back to the same f32 (TOML floats are f64)
            format!("alpha = {:?}", a as f64)
        }
        _ => format!("max_parameter = {}", c.max_param),
    })
}

fn section_of(i: usize) -> Option<usize> {
    match i {
        0..=2 => None,
        3..=5 => Some(0),
        6..=8 => Some(1),
        9 => Some(2),
        10 | 11 => Some(3),
        12..=15 => Some(4),
        16 | 17 => Some(5),
        _ => Some(6),
    }
}

/// Writes the document for value `c` with the leaves in `omitted` (bit set) left out. A tagged enum
/// whose `type` is omitted is omitted as a whole; `partitions` / `alpha` can be omitted while the
/// `type` tag is present (the documented defaults 16 / 0.4 then apply).
/// Returns (document, effective omission mask).
pub fn write_doc(c: &FullCfg, omitted: u32, empty_headers: bool) -> (String, u32) {
    let mut om = omitted;
    if om & (1 << 10) != 0 {
        om |= 1 << 11;
    }
    if om & (1 << 16) != 0 {
        om |= 1 << 17;
    }
    let mut doc = String::new();
    let mut cur: Option<usize> = None;
    let present = |i: usize| om & (1 << i) == 0 && leaf_text(c, i).is_some();
    for sec in std::iter::once(None).chain((0..SECTIONS.len()).map(Some)) {
        let leaves: Vec<usize> = (0..LEAVES.len()).filter(|&i| section_of(i) == sec && present(i)).collect();
        if let Some(s) = sec {
            // a header is needed when the section has leaves; an empty section may or may not be written
            let is_enum = s == 3 || s == 5;
            if leaves.is_empty() && (!empty_headers || is_enum) {
                continue;
            }
            doc.push_str(&format!("[{}]\n", SECTIONS[s]));
            cur = Some(s);
        }
        let _ = cur;
        for i in leaves {
            doc.push_str(&leaf_text(c, i).unwrap());
            doc.push('\n');
        }
    }
    (doc, om)
}

/// The value expected from a document: `c` with the omitted leaves replaced by documented defaults.
pub fn expected_value(c: &FullCfg, om: u32) -> FullCfg {
    let d = documented_defaults();
    let mut e = c.clone();
    let o = |i: usize| om & (1 << i) != 0;
    if o(0) {
        e.block_size = d.block_size;
    }
    if o(1) {
        e.multithread = d.multithread;
    }
    if o(2) {
        e.workers = d.workers;
    }
    if o(3) {
        e.ls = d.ls;
    }
    if o(4) {
        e.rs = d.rs;
    }
    if o(5) {
        e.ms = d.ms;
    }
    if o(6) {
        e.use_constant = d.use_constant;
    }
    if o(7) {
        e.use_fixed = d.use_fixed;
    }
    if o(8) {
        e.use_lpc = d.use_lpc;
    }
    if o(9) {
        e.fixed_max_order = d.fixed_max_order;
    }
    if o(10) {
        e.approx_ent_partitions = d.approx_ent_partitions;
    } else if o(11) && e.approx_ent_partitions.is_some() {
        e.approx_ent_partitions = Some(16);
    }
    if o(12) {
        e.lpc_order = d.lpc_order;
    }
    if o(13) {
        e.precision = d.precision;
    }
    if o(14) {
        e.direct_mse = d.direct_mse;
    }
    if o(15) {
        e.mae_steps = d.mae_steps;
    }
    if o(16) {
        e.tukey_alpha_bits = d.tukey_alpha_bits;
    } else if o(17) && e.tukey_alpha_bits.is_some() {
        e.tukey_alpha_bits = Some(0.4f32.to_bits());
    }
    if o(18) {
        e.max_param = d.max_param;
    }
    e
}

fn render(e: &config::Encoder) -> String {
    format!("{e:?}")
}

fn toml_representable(c: &FullCfg) -> bool {
    let ok = |v: usize| v <= i64::MAX as usize;
    let alpha_ok = c.tukey_alpha_bits.map_or(true, |b| !f32::from_bits(b).is_nan());
    ok(c.block_size) && ok(c.fixed_max_order) && c.approx_ent_partitions.map_or(true, ok) && ok(c.lpc_order) && ok(c.precision) && ok(c.max_param) && ok(c.mae_steps) && ok(c.workers) && alpha_ok
}

fn check_roundtrip(rep: &Report, local: &mut Local, c: &FullCfg) {
    local.evals += 1;
    let cj = || json!({"toml_roundtrip": c});
    let value = c.to_config();
    let r = panicx::catch(|| -> Result<(), (String, String)> {
        let text = toml::to_string(&value).map_err(|e| ("serialise_error".to_string(), format!("toml::to_string failed: {e}")))?;
        let back: config::Encoder = toml::from_str(&text).map_err(|e| ("parse_back_error".to_string(), format!("the serialised document does not parse: {e}\n{text}")))?;
        if render(&back) != render(&value) {
            return Err(("roundtrip_differs".into(), format!("parsed-back configuration differs:\n  in : {}\n  out: {}", render(&value), render(&back))));
        }
        let (v1, v2) = (value.verify().is_ok(), back.verify().is_ok());
        if v1 != v2 {
            return Err(("verify_differs_after_roundtrip".into(), format!("verify(): in-memory {v1}, parsed {v2}")));
        }
        let want = out_of_range(c, cfg!(feature = "experimental")).is_empty();
        if v2 != want {
            return Err(("verify_vs_documented_range".into(), format!("parsed configuration verifies {v2}, documented ranges say {want}")));
        }
        // the verified wrapper is serialisable too: what it writes must parse back to the same configuration
        if let Ok(ver) = value.clone().into_verified() {
            let vtext = toml::to_string(&ver).map_err(|e| ("serialise_error|verified".to_string(), format!("toml::to_string of the verified configuration failed: {e}")))?;
            let vback: config::Encoder = toml::from_str(&vtext).map_err(|e| ("parse_back_error|verified".to_string(), format!("the document serialised from the verified configuration does not parse: {e}\n{vtext}")))?;
            if render(&vback) != render(&value) {
                return Err(("roundtrip_differs|verified".into(), format!("the document serialised from the verified configuration parses to a different configuration:\n  in : {}\n  out: {}\n{vtext}", render(&value), render(&vback))));
            }
        }
        // a document parsed directly as a verified configuration must not get round verification (whether
        // such a document parses at all is not demanded)
        let via_value = text.parse::<toml::Value>().ok().and_then(|v| v.try_into::<flacenc::error::Verified<config::Encoder>>().ok());
        if via_value.is_some() && !v1 {
            return Err(("parsed_as_verified_without_verification".into(), format!("a document whose configuration verification rejects ({}) becomes a Verified<Encoder> through toml::Value::try_into", out_of_range(c, cfg!(feature = "experimental")).join(", "))));
        }
        if let Some(d) = &via_value {
            if render(d) != render(&value) {
                return Err(("roundtrip_differs|parsed_as_verified".into(), "the document parsed as Verified<Encoder> holds a different configuration".into()));
            }
        }
        if let (Ok(_), false) = (toml::from_str::<flacenc::error::Verified<config::Encoder>>(&text), v1) {
            return Err(("parsed_as_verified_without_verification".into(), format!("a document whose configuration verification rejects ({}) parses as Verified<Encoder>", out_of_range(c, cfg!(feature = "experimental")).join(", "))));
        }
        Ok(())
    });
    match r {
        Ok(Ok(())) => {
            local.outcome("roundtrip_ok");
            local.nontrivial.insert(crate::universe::fnv(&serde_json::to_string(c).unwrap()));
        }
        Ok(Err((class, what))) => {
            local.outcome(&class);
            rep.violation(&class, &what, cj(), 1);
        }
        Err(p) => rep.violation(&p.class(), &p.describe(), cj(), 1),
    }
}

fn check_omission(rep: &Report, local: &mut Local, c: &FullCfg, omitted: u32, empty_headers: bool) {
    local.evals += 1;
    let (doc, om) = write_doc(c, omitted, empty_headers);
    let cj = || json!({"toml_omission": {"value": c, "omitted_mask": omitted, "empty_headers": empty_headers, "document": doc}});
    let w = omitted.count_ones() as u64;
    let want = expected_value(c, om);
    let r = panicx::catch(|| toml::from_str::<config::Encoder>(&doc).map_err(|e| format!("{e}")));
    match r {
        Err(p) => rep.violation(&p.class(), &p.describe(), cj(), w),
        Ok(Err(e)) => {
            local.outcome("partial_document_rejected");
            rep.violation("partial_document_rejected", &format!("a document that only omits fields does not parse: {e}"), cj(), w);
        }
        Ok(Ok(parsed)) => {
            let (a, b) = (render(&parsed), render(&want.to_config()));
            if a != b {
                local.outcome("wrong_default");
                let omitted_names: Vec<&str> = (0..19).filter(|i| om & (1 << i) != 0).map(|i| LEAVES[i]).collect();
                rep.violation(
                    &format!("omitted_field_default|{}", first_difference(&a, &b)),
                    &format!("omitting {omitted_names:?}: parsed value differs from the documented defaults\n  parsed  : {a}\n  expected: {b}"),
                    cj(),
                    w,
                );
                return;
            }
            let v = parsed.verify().is_ok();
            let wantv = out_of_range(&want, cfg!(feature = "experimental")).is_empty();
            if v != wantv {
                rep.violation("verify_vs_documented_range", &format!("parsed partial document verifies {v}, documented ranges say {wantv}"), cj(), w);
                return;
            }
            local.outcome("omission_ok");
            if om != 0 {
                local.nontrivial.insert(0xC19_0000_0000 ^ ((om as u64) << 8) ^ u64::from(empty_headers) ^ ((c.block_size as u64) << 40));
            }
        }
    }
}

/// Name of the first field at which two Debug renderings differ (class key).
fn first_difference(a: &str, b: &str) -> String {
    let at = a.bytes().zip(b.bytes()).position(|(x, y)| x != y).unwrap_or(a.len().min(b.len()));
    let head = &a[..at.min(a.len())];
    let start = head.rfind(|c: char| c == ' ' || c == '{' || c == '(').map_or(0, |p| p + 1);
    let name: String = a[start..].chars().take_while(|c| c.is_alphanumeric() || *c == '_').collect();
    if name.is_empty() {
        "value".into()
    } else {
        name
    }
}

fn nondefault_values() -> Vec<FullCfg> {
    let a = FullCfg {
        block_size: 1234,
        multithread: false,
        workers: 3,
        ls: false,
        rs: false,
        ms: false,
        use_constant: false,
        use_fixed: false,
        use_lpc: false,
        fixed_max_order: 2,
        approx_ent_partitions: Some(32),
        lpc_order: 7,
        precision: 9,
        tukey_alpha_bits: Some(0.25f32.to_bits()),
        max_param: 5,
        direct_mse: true,
        mae_steps: 2,
    };
    let mut b = a.clone();
    b.approx_ent_partitions = None;
    b.tukey_alpha_bits = None;
    b.workers = 0;
    b.block_size = 31;
    vec![a, b]
}

pub fn run(args: &Args, rep: &Arc<Report>) {
    let thorough = args.tier == "thorough";
    if let Some(p) = &args.replay {
        let s = std::fs::read_to_string(p).unwrap_or_default();
        let v: Value = serde_json::from_str(&s).unwrap_or(Value::Null);
        let c = v.get("case").cloned().unwrap_or(v);
        let mut local = Local::default();
        if let Some(x) = c.get("toml_roundtrip") {
            check_roundtrip(rep, &mut local, &serde_json::from_value(x.clone()).expect("bad replay"));
        } else if let Some(x) = c.get("toml_omission") {
            let val: FullCfg = serde_json::from_value(x["value"].clone()).expect("bad replay");
            check_omission(rep, &mut local, &val, x["omitted_mask"].as_u64().unwrap_or(0) as u32, x["empty_headers"].as_bool().unwrap_or(false));
        }
        rep.merge(local);
        rep.set_rule("replay of one recorded case");
        return;
    }
    // (a) round trips over the C07 configuration set restricted to what TOML can carry
    let cfgs: Vec<FullCfg> = all_configs().into_iter().filter(toml_representable).collect();
    let n = cfgs.len();
    par_for(
        rep,
        (n + 63) / 64,
        Duration::from_secs(300),
        |i| json!({"toml_roundtrip": cfgs[i * 64]}),
        |i, local| {
            for c in &cfgs[i * 64..((i + 1) * 64).min(n)] {
                check_roundtrip(rep, local, c);
            }
        },
    );
    rep.sample(json!({"toml_roundtrip": cfgs[n / 2]}));
    // (b) omission subsets
    let values = nondefault_values();
    let masks: Vec<u32> = if thorough { (0..(1u32 << 19)).collect() } else { (0..(1u32 << 19)).filter(|m| m.count_ones() <= 4 || (!m & 0x7FFFF).count_ones() <= 3).collect() };
    // whole-section omissions
    let section_masks: Vec<u32> = (0..SECTIONS.len())
        .map(|s| (0..19).filter(|&i| section_of(i) == Some(s) || (s == 1 && section_of(i).map_or(false, |x| x >= 1)) || (s == 2 && section_of(i) == Some(3)) || (s == 4 && section_of(i) == Some(5))).fold(0u32, |m, i| m | (1 << i)))
        .collect();
    let mut work: Vec<(usize, u32, bool)> = Vec::new();
    for (vi, _) in values.iter().enumerate() {
        for &m in masks.iter().chain(section_masks.iter()) {
            work.push((vi, m, false));
            // the same document with the headers of emptied sections kept
            if thorough || m.count_ones() <= 3 || section_masks.contains(&m) {
                work.push((vi, m, true));
            }
        }
    }
    let wn = work.len();
    let chunk = 1024;
    par_for(
        rep,
        (wn + chunk - 1) / chunk,
        Duration::from_secs(300),
        |i| json!({"toml_omission": {"mask": work[i * chunk].1}}),
        |i, local| {
            for &(vi, m, eh) in &work[i * chunk..((i + 1) * chunk).min(wn)] {
                check_omission(rep, local, &values[vi], m, eh);
            }
        },
    );
    let (doc, _) = write_doc(&values[0], 0b101_0000_0100, false);
    rep.sample(json!({"toml_omission": {"omitted_mask": 0b101_0000_0100, "document": doc}}));
    // (c) a tagged ApproxEnt without `partitions`, a tagged Tukey without `alpha`
    {
        let mut local = Local::default();
        check_omission(rep, &mut local, &values[0], 1 << 11, false);
        check_omission(rep, &mut local, &values[0], 1 << 17, false);
        check_omission(rep, &mut local, &values[0], (1 << 11) | (1 << 17), false);
        rep.merge(local);
    }
    rep.extra("roundtrip_configs", json!(n));
    rep.extra("omission_documents", json!(wn));
    rep.set_rule(&format!(
        "(a) toml::from_str(toml::to_string(c)) renders equal to c, verify() agrees before/after and with the documented ranges, the document written from the Verified wrapper parses to the same value, and a document that verification rejects never parses as Verified<Encoder>, for every single- and two-field deviation of the C07 configuration set that TOML can carry ({n} values); (b) documents written by the harness from two all-non-default values with {} of the 2^19 subsets of the 19 leaf keys omitted (plus whole-section omissions, with and without the emptied section headers): parsed value == value with exactly the omitted leaves replaced by the documented defaults; (c) type=\"ApproxEnt\" without partitions -> 16, type=\"Tukey\" without alpha -> 0.4; non-trivial = a round trip or a document with at least one omitted leaf that agreed",
        if thorough { "ALL".to_string() } else { "every subset of size <= 4 or of co-size <= 3".to_string() }
    ));
}
