//! C02 - every emitted stream is well-formed FLAC (RFC 9639).
//!
//! Part A: the universe U_d + GH (header code classes), every stream validated by `strictflac`.
//! Part B: three complete code spaces - every final-frame length 1..=32767, every sample rate
//! 1..=96000, every frame number (boundary windows in the quick tier, all of 0..2^31 in thorough).
use super::ustream::{self, drive};
use crate::report::{par_for, Local, Report};
use crate::strictflac::{self, InfoFacts};
use crate::subject::{self, EncFail, Mode};
use crate::universe::{Case, Cfg, Input};
use crate::Args;
use flacenc::bitsink::ByteSink;
use flacenc::component::{BitRepr, ChannelAssignment, Frame, FrameHeader, FrameOffset};
use flacenc::error::Verify;
use serde_json::{json, Value};
use std::sync::Arc;
use std::time::Duration;

/// Validates one serialised stream against every clause of the statement.
pub fn validate_stream(bytes: &[u8], bs: usize, rate: u32, ch: u32, bps: u32) -> Result<strictflac::StreamFacts, Vec<String>> {
    let f = match strictflac::parse(bytes) {
        Ok(f) => f,
        Err(e) => return Err(vec![e]),
    };
    // a wasted-bits subframe is valid FLAC (decoded by the reference decoder); the statement does not forbid it
    let mut issues: Vec<String> = f.issues.iter().filter(|s| !s.starts_with("sub.wasted_bits")).cloned().collect();
    strictflac::check_block_sizes(&f, bs, &mut issues);
    for (i, fr) in f.frames.iter().enumerate() {
        if fr.block_size > f.info.max_bs as usize {
            issues.push(format!("frame.blocksize_above_streaminfo: frame {i} has {} samples, STREAMINFO max {}", fr.block_size, f.info.max_bs));
        }
        // canonical block-size / sample-rate codes are not demanded; agreement is.
        if let Some(r) = fr.rate {
            if r != rate {
                issues.push(format!("frame.rate_vs_input: header states {r} Hz, input has {rate}"));
            }
        }
    }
    if f.info.rate != rate || f.info.channels != ch || f.info.bps != bps {
        issues.push(format!(
            "streaminfo.format: states rate={} ch={} bps={}, input rate={rate} ch={ch} bps={bps}",
            f.info.rate, f.info.channels, f.info.bps
        ));
    }
    if !f.extra_meta.is_empty() {
        issues.push(format!("meta.unexpected: {} metadata blocks after STREAMINFO", f.extra_meta.len()));
    }
    if issues.is_empty() {
        Ok(f)
    } else {
        Err(issues)
    }
}

fn check_case(rep: &Report, case: &Case, labels: &[String], local: &mut Local) {
    let samples = case.input.samples();
    local.evals += 1;
    for l in labels {
        local.dim(l);
    }
    let inp = &case.input;
    let mut st: Option<Vec<u8>> = None;
    for mode in [Mode::St, Mode::Frame] {
        let bytes = match subject::encode_bytes(case, &samples, mode) {
            Ok((_, b)) => b,
            Err(EncFail::TooBig(_)) => {
                local.count("giant_streams_not_serialised", 1);
                continue;
            }
            Err(e) => {
                local.outcome(&format!("{}:fail:{}", mode.name(), e.class()));
                rep.violation(&format!("encode_fail|{}", e.class()), &format!("{}: {}", mode.name(), e.describe()), case.json(), case.weight());
                continue;
            }
        };
        if st.as_ref() == Some(&bytes) {
            local.outcome("frame:same_bytes_as_st");
            continue;
        }
        match validate_stream(&bytes, inp.bs as usize, inp.rate, inp.ch as u32, inp.bps as u32) {
            Ok(f) => {
                local.outcome(&format!("{}:ok", mode.name()));
                // non-trivial: a stream with a frame whose header needs an explicit block size or rate field
                if f.frames.iter().any(|fr| fr.bs_code == 6 || fr.bs_code == 7 || fr.rate_code >= 12) {
                    local.nontrivial.insert(case.id());
                }
                for fr in &f.frames {
                    local.count(&format!("bs_code_{}", fr.bs_code), 1);
                    local.count(&format!("rate_code_{}", fr.rate_code), 1);
                }
            }
            Err(issues) => {
                local.outcome(&format!("{}:violation", mode.name()));
                for is in issues {
                    rep.violation(
                        &format!("malformed|{}", strictflac::clause(&is)),
                        &format!("{}: {is}", mode.name()),
                        case.json(),
                        case.weight(),
                    );
                }
            }
        }
        if mode == Mode::St {
            st = Some(bytes);
        }
    }
}

fn simple_case(bs: u32, len: usize, atom: u8, rate: u32, bps: u8) -> Case {
    Case {
        input: Input {
            ch: 1,
            bps,
            rate,
            bs,
            full: (len / bs as usize) as u32,
            tail: (len % bs as usize) as u32,
            atoms: [atom; 4],
            rel: 0,
            delivery: 0,
            seed: 0,
        },
        cfg: Cfg::default(),
    }
}

/// Part B (i)+(ii): a declared list of tiny stream cases, each validated like part A and with the
/// decoded header fields compared with the request.
fn run_code_spaces(rep: &Arc<Report>, thorough: bool) {
    let mut cases: Vec<Case> = Vec::new();
    for l in 1..=32767usize {
        cases.push(simple_case(32767, l, 1, 44100, 16));
        if l <= 4096 && (thorough || l <= 1024) {
            cases.push(simple_case(32767, l, 26, 48000, 16));
        }
    }
    let n_len = cases.len();
    for rate in 1..=96000u32 {
        cases.push(simple_case(32, 32, 0, rate, 8));
    }
    let n = cases.len();
    let chunk = 256;
    par_for(
        rep,
        (n + chunk - 1) / chunk,
        Duration::from_secs(300),
        |i| cases[i * chunk].json(),
        |i, local| {
            for c in &cases[i * chunk..((i + 1) * chunk).min(n)] {
                local.set_current(c);
                check_case(rep, c, &[], local);
                local.count("code_space_cases", 1);
            }
        },
    );
    rep.add_rule(&format!(
        "complete code spaces: every final-frame length 1..=32767 at block size 32767 (DC content; noisy content for lengths <= {}): {} cases; every sample rate 1..=96000 as a one-frame stream: 96000 cases",
        if thorough { 4096 } else { 1024 },
        n_len
    ));
}

fn number_windows(thorough: bool) -> Vec<(u64, u64)> {
    if thorough {
        return vec![(0, 1u64 << 31)];
    }
    let mut v = vec![(0u64, 1u64 << 17)];
    for b in [7u32, 11, 16, 21, 26, 31] {
        let c = 1u64 << b;
        v.push((c.saturating_sub(2048).max(1 << 17), (c + 2048).min(1 << 31)));
    }
    v.retain(|(a, b)| a < b);
    v
}

/// Part B (iii): frame numbers through `FrameHeader` + `write`, and through whole frames for the
/// boundary windows.
fn run_frame_numbers(rep: &Arc<Report>, thorough: bool) {
    let wins = number_windows(thorough);
    // split into chunks of 2^20 numbers
    let mut chunks: Vec<(u64, u64)> = Vec::new();
    for (a, b) in &wins {
        let mut x = *a;
        while x < *b {
            let y = (x + (1 << 20)).min(*b);
            chunks.push((x, y));
            x = y;
        }
    }
    par_for(
        rep,
        chunks.len(),
        Duration::from_secs(600),
        |i| json!({"frame_numbers": [chunks[i].0, chunks[i].1]}),
        |i, local| {
            let (a, b) = chunks[i];
            let mut hdr = FrameHeader::new(192, ChannelAssignment::Independent(1), 16, 44100, FrameOffset::Frame(0)).unwrap();
            let mut sink = ByteSink::new();
            for n in a..b {
                hdr.set_frame_offset(FrameOffset::Frame(n as u32));
                sink.clear();
                if hdr.write(&mut sink).is_err() {
                    rep.violation("header_write_error", &format!("FrameHeader::write failed for frame number {n}"), json!({"frame_number": n}), n);
                    continue;
                }
                let d = sink.as_slice();
                let fail = |what: String| {
                    rep.violation("malformed|frame.number_coding", &what, json!({"frame_number": n}), n);
                };
                if d.len() < 6 || d[0] != 0xFF || d[1] != 0xF8 {
                    fail(format!("frame number {n}: header starts {:02x?} (sync + fixed-blocksize bit expected)", &d[..d.len().min(2)]));
                    continue;
                }
                match strictflac::decode_number(d, 4) {
                    Ok((v, len, canon)) => {
                        if v != n || !canon || d.len() != 4 + len + 1 {
                            fail(format!("frame number {n}: coded as {:02x?} -> value {v}, {len} bytes, canonical={canon}, header length {}", &d[4..], d.len()));
                        } else if strictflac::crc8(&d[..d.len() - 1]) != d[d.len() - 1] {
                            rep.violation("malformed|frame.crc8", &format!("frame number {n}: header CRC-8 wrong"), json!({"frame_number": n}), n);
                        }
                    }
                    Err(e) => fail(format!("frame number {n}: {e}")),
                }
            }
            local.evals += b - a;
            local.count("frame_numbers_header_level", b - a);
            // distinct non-trivial: one id per (chunk, coded length class)
            for n in [a, b - 1] {
                local.nontrivial.insert(0xC02_0000_0000_0000 ^ n);
            }
        },
    );
    // whole frames for the boundary windows (always the quick windows: a whole frame costs ~1 us)
    let fwins = number_windows(false);
    let info = InfoFacts { rate: 44100, channels: 2, bps: 16, max_bs: 64, min_bs: 64, ..Default::default() };
    let case = {
        let mut c = crate::universe::decode(&crate::universe::base_points()[1]);
        c.input.bs = 64;
        c.input.full = 1;
        c.input.tail = 0;
        c
    };
    let samples = case.input.samples();
    let cfg = subject::verified(&case.cfg, false, 64).ok().unwrap();
    let stream_info = flacenc::component::StreamInfo::new(44100, 2, 16).unwrap();
    let mut fb = flacenc::source::FrameBuf::with_size(2, 64).unwrap();
    {
        use flacenc::source::Fill;
        fb.fill_interleaved(&samples).unwrap();
    }
    let mut chunks: Vec<(u64, u64)> = Vec::new();
    for (a, b) in &fwins {
        let mut x = *a;
        while x < *b {
            let y = (x + 1024).min(*b);
            chunks.push((x, y));
            x = y;
        }
    }
    par_for(
        rep,
        chunks.len(),
        Duration::from_secs(300),
        |i| json!({"frame_numbers_whole_frames": [chunks[i].0, chunks[i].1]}),
        |i, local| {
            let (a, b) = chunks[i];
            for n in a..b {
                local.evals += 1;
                let r = crate::panicx::catch(|| -> Result<Vec<u8>, String> {
                    let frame: Frame = flacenc::encode_fixed_size_frame(&cfg, &fb, n as usize, &stream_info).map_err(|e| format!("{e:?}"))?;
                    frame.verify().map_err(|e| format!("verify: {e:?}"))?;
                    let mut sink = ByteSink::new();
                    frame.write(&mut sink).map_err(|e| format!("write: {e:?}"))?;
                    Ok(sink.into_inner())
                });
                let case_json = json!({"whole_frame_number": n, "base": case.json()});
                let bytes = match r {
                    Ok(Ok(b)) => b,
                    Ok(Err(e)) => {
                        rep.violation("frame_number_encode_error", &format!("encode_fixed_size_frame with frame number {n}: {e}"), case_json, n);
                        continue;
                    }
                    Err(p) => {
                        rep.violation(&format!("frame_number_{}", p.class()), &format!("frame number {n}: {}", p.describe()), case_json, n);
                        continue;
                    }
                };
                match strictflac::parse_single_frame(&bytes, &info) {
                    Err(e) => rep.violation(&format!("malformed|{}", strictflac::clause(&e)), &format!("frame with number {n}: {e}"), case_json, n),
                    Ok((ff, _, issues)) => {
                        for is in issues {
                            rep.violation(&format!("malformed|{}", strictflac::clause(&is)), &format!("frame with number {n}: {is}"), case_json.clone(), n);
                        }
                        if ff.number != n || ff.end != bytes.len() {
                            rep.violation("malformed|frame.number_value", &format!("frame encoded with number {n} carries {} ({} of {} bytes consumed)", ff.number, ff.end, bytes.len()), case_json, n);
                        }
                        local.count(&format!("whole_frames_number_len_{}", ff.number_len), 1);
                    }
                }
            }
        },
    );
    rep.add_rule(&format!(
        "frame numbers: header level (FrameHeader + write, coded number decoded by the reference decoder, canonical length, CRC-8) over {}; whole frames (encode_fixed_size_frame + Frame::write, full reference parse) over every n < 2^17 and +-2048 around 2^7, 2^11, 2^16, 2^21, 2^26, 2^31",
        if thorough { "every n in 0..2^31".to_string() } else { format!("the windows {wins:?}") }
    ));
}

/// Streams to which the user added metadata blocks: the last-block flags must stay consistent.
fn run_metadata_variants(rep: &Arc<Report>) {
    use flacenc::component::MetadataBlockData;
    let mut local = Local::default();
    for b in 0..6usize {
        let case = crate::universe::decode(&crate::universe::base_points()[b]);
        let samples = case.input.samples();
        for tags in [vec![1u8], vec![2, 126], vec![4, 1, 2]] {
            for size in [0usize, 1, 255, 65536] {
                local.evals += 1;
                let Ok(mut s) = subject::encode(&case, &samples, Mode::St) else { continue };
                for &t in &tags {
                    let data: Vec<u8> = (0..size).map(|i| (i * 31 + t as usize) as u8).collect();
                    if let Ok(m) = MetadataBlockData::new_unknown(t, &data) {
                        s.add_metadata_block(m);
                    }
                }
                let cj = json!({"stream_with_metadata": {"base": b, "tags": tags, "size": size}, "case": case.json()});
                let Ok(bytes) = subject::stream_bytes(&s) else { continue };
                match strictflac::parse(&bytes) {
                    Err(e) => rep.violation(&format!("malformed|{}", strictflac::clause(&e)), &format!("stream with {} added metadata blocks: {e}", tags.len()), cj, size as u64),
                    Ok(f) => {
                        let want: Vec<(u8, usize)> = tags.iter().map(|&t| (t, size)).collect();
                        if f.extra_meta != want {
                            rep.violation("malformed|meta.blocks", &format!("added metadata blocks {want:?} are read back as {:?}", f.extra_meta), cj, size as u64);
                        } else if f.info.is_last {
                            rep.violation("malformed|meta.last_flag", "STREAMINFO is flagged last although metadata blocks follow", cj, size as u64);
                        } else if f.samples != samples {
                            rep.violation("malformed|meta.audio", "audio differs after adding metadata blocks", cj, size as u64);
                        } else {
                            for is in f.issues.iter().filter(|s| !s.starts_with("sub.wasted_bits")) {
                                rep.violation(&format!("malformed|{}", strictflac::clause(is)), &format!("stream with added metadata: {is}"), cj.clone(), size as u64);
                            }
                            local.nontrivial.insert(crate::universe::fnv(&cj.to_string()));
                        }
                    }
                }
            }
        }
    }
    rep.merge(local);
    rep.add_rule("streams of the six base points with 1-3 added unknown metadata blocks (sizes 0, 1, 255, 65536): block sequence, last-block flags and audio read back by the reference parser");
}

pub fn run(args: &Args, rep: &Arc<Report>) {
    let thorough = args.tier == "thorough";
    if let Some(p) = &args.replay {
        // replay files hold either a universe case or a frame-number probe
        let s = std::fs::read_to_string(p).unwrap_or_default();
        let v: Value = serde_json::from_str(&s).unwrap_or(Value::Null);
        let c = v.get("case").cloned().unwrap_or(v);
        if c.get("frame_number").is_some() || c.get("whole_frame_number").is_some() {
            run_frame_numbers(rep, false);
            rep.set_rule("replay: frame-number windows re-run");
            return;
        }
        if c.get("stream_with_metadata").is_some() {
            run_metadata_variants(rep);
            rep.set_rule("replay: streams with added metadata blocks re-run");
            return;
        }
    }
    let groups = if args.replay.is_some() { vec![] } else { vec![ustream::gh()] };
    let d = if thorough { 3 } else { 2 };
    drive(args, rep, d, true, groups, |case, labels, local| {
        if rep.want_sample() {
            rep.sample(case.json());
        }
        check_case(rep, case, labels, local);
    });
    if args.replay.is_none() {
        run_code_spaces(rep, thorough);
        run_frame_numbers(rep, thorough);
        run_metadata_variants(rep);
    }
    rep.add_rule("every stream (single-thread and frame-level assembly) must pass the RFC 9639 reference validator with no issue: marker, STREAMINFO first/34 bytes/last flag, sync, reserved bits, fixed-blocksize bit, non-reserved codes agreeing with STREAMINFO and the input, frame numbers 0,1,2.. canonical, CRC-8, CRC-16, zero padding, subframe limits (order < block size, precision code, shift >= 0, method 0, parameters < 15, partition divisibility, first partition, residuals in 32 bits), non-final frames of exactly the requested size, no trailing byte; non-trivial = a stream whose headers carry an explicit block-size or sample-rate field");
}
