//! C11 - both in-memory sinks behave as an ideal MSB-first bit string under every sequence of
//! write operations (depth 2 from every start offset 0..=63, depth 3 on a reduced alphabet), and a
//! user-defined sink with only the required methods receives the same bits as `ByteSink` for
//! every component of a corpus of encoded streams.
use crate::bitmodel::ModelSink;
use crate::report::{par_for, Local, Report};
use crate::subject::{self, Mode};
use crate::universe::{self, Case};
use crate::{panicx, Args};
use flacenc::bitsink::{BitSink, ByteSink, MemSink};
use flacenc::component::BitRepr;
use serde::{Deserialize, Serialize};
use serde_json::{json, Value};
use std::sync::Arc;
use std::time::Duration;

/// Ideal bit string: MSB-first packed into u64 words, zero beyond `len`.
#[derive(Clone, Debug, PartialEq, Eq, Default)]
pub struct BitStr {
    pub w: Vec<u64>,
    pub len: usize,
}

impl BitStr {
    /// Appends the low `n` bits of `v`, most significant first.
    pub fn push(&mut self, v: u64, n: usize) {
        debug_assert!(n <= 64);
        if n == 0 {
            return;
        }
        let v = if n == 64 { v } else { v & ((1u64 << n) - 1) };
        let used = self.len & 63;
        if used == 0 {
            self.w.push(v << (64 - n));
        } else {
            let free = 64 - used;
            let last = self.w.last_mut().unwrap();
            if n <= free {
                *last |= v << (free - n);
            } else {
                *last |= v >> (n - free);
                self.w.push(v << (64 - (n - free)));
            }
        }
        self.len += n;
    }
    pub fn push_zeros(&mut self, n: usize) {
        let total = self.len + n;
        self.w.resize((total + 63) / 64, 0);
        self.len = total;
    }
    pub fn append(&mut self, o: &BitStr) {
        let mut left = o.len;
        for &x in &o.w {
            let k = left.min(64);
            self.push(x >> (64 - k), k);
            left -= k;
        }
    }
    pub fn bytes(&self) -> Vec<u8> {
        let mut v = Vec::with_capacity(self.w.len() * 8);
        for x in &self.w {
            v.extend_from_slice(&x.to_be_bytes());
        }
        v.truncate((self.len + 7) / 8);
        v
    }
    pub fn bitstring(&self) -> String {
        (0..self.len).map(|i| if (self.w[i >> 6] >> (63 - (i & 63))) & 1 == 1 { '1' } else { '0' }).collect()
    }
}

#[derive(Clone, Debug, Serialize, Deserialize, PartialEq)]
pub enum Op {
    /// whole value of `bits` bits
    Write { bits: u8, v: u64 },
    Msbs { bits: u8, v: u64, n: u8 },
    Lsbs { bits: u8, v: u64, n: u8 },
    /// two's-complement field: value type of `bits` bits, field width `n`
    Twoc { bits: u8, v: i64, n: u8 },
    Zeros { n: u16 },
    Align,
    Bytes { b: Vec<u8> },
}

fn apply<S: BitSink>(s: &mut S, op: &Op) -> Result<(), String> {
    let r = match op {
        Op::Write { bits, v } => match bits {
            8 => s.write(*v as u8),
            16 => s.write(*v as u16),
            32 => s.write(*v as u32),
            _ => s.write(*v),
        },
        Op::Msbs { bits, v, n } => match bits {
            8 => s.write_msbs(*v as u8, *n as usize),
            16 => s.write_msbs(*v as u16, *n as usize),
            32 => s.write_msbs(*v as u32, *n as usize),
            _ => s.write_msbs(*v, *n as usize),
        },
        Op::Lsbs { bits, v, n } => match bits {
            8 => s.write_lsbs(*v as u8, *n as usize),
            16 => s.write_lsbs(*v as u16, *n as usize),
            32 => s.write_lsbs(*v as u32, *n as usize),
            _ => s.write_lsbs(*v, *n as usize),
        },
        Op::Twoc { bits, v, n } => match bits {
            8 => s.write_twoc(*v as i8, *n as usize),
            16 => s.write_twoc(*v as i16, *n as usize),
            32 => s.write_twoc(*v as i32, *n as usize),
            _ => s.write_twoc(*v, *n as usize),
        },
        Op::Zeros { n } => s.write_zeros(*n as usize),
        Op::Align => s.align_to_byte().map(|_| ()),
        Op::Bytes { b } => s.write_bytes_aligned(b).map(|_| ()),
    };
    r.map_err(|e| format!("{e}"))
}

/// What the ideal bit string receives.
fn model_apply(m: &mut BitStr, op: &Op) {
    match op {
        Op::Write { bits, v } => m.push(*v, *bits as usize),
        Op::Msbs { bits, v, n } => {
            let b = *bits as usize;
            let v = if b == 64 { *v } else { *v & ((1u64 << b) - 1) };
            let n = *n as usize;
            if n > 0 {
                m.push(v >> (b - n), n);
            }
        }
        Op::Lsbs { v, n, .. } => m.push(*v, *n as usize),
        Op::Twoc { v, n, .. } => m.push(*v as u64, *n as usize),
        Op::Zeros { n } => m.push_zeros(*n as usize),
        Op::Align => m.push_zeros((8 - m.len % 8) % 8),
        Op::Bytes { b } => {
            m.push_zeros((8 - m.len % 8) % 8);
            for x in b {
                m.push(*x as u64, 8);
            }
        }
    }
}

const LCGC: u64 = 0x9E37_79B9_7F4A_7C15;

fn values(bits: u8, full: bool) -> Vec<u64> {
    let mask = if bits == 64 { u64::MAX } else { (1u64 << bits) - 1 };
    let all = [0u64, u64::MAX, 0xA5A5_A5A5_A5A5_A5A5, 0x5A5A_5A5A_5A5A_5A5A, 1u64 << (bits - 1), 1, LCGC];
    let pick: &[usize] = if full { &[0, 1, 2, 3, 4, 5, 6] } else { &[1, 2, 6] };
    pick.iter().map(|&i| all[i] & mask).collect()
}

pub fn alphabet(full: bool) -> Vec<Op> {
    let mut v = Vec::new();
    for bits in [8u8, 16, 32, 64] {
        for val in values(bits, full) {
            v.push(Op::Write { bits, v: val });
            for n in 0..=bits {
                v.push(Op::Msbs { bits, v: val, n });
                v.push(Op::Lsbs { bits, v: val, n });
            }
        }
    }
    // two's-complement fields: every width 1..=64 with values inside the width
    // a two's-complement field of width 0 holds no bits (as write_msbs / write_lsbs with n = 0)
    v.push(Op::Twoc { bits: 8, v: 0, n: 0 });
    v.push(Op::Twoc { bits: 64, v: 0, n: 0 });
    for n in 1..=64u8 {
        let lo = if n == 64 { i64::MIN } else { -(1i64 << (n - 1)) };
        let hi = if n == 64 { i64::MAX } else { (1i64 << (n - 1)) - 1 };
        let mut vals = vec![lo, hi, -1, 0];
        if full {
            vals.push((LCGC as i64 >> (64 - n as u32)).clamp(lo, hi));
            vals.push(hi / 3);
        }
        vals.dedup();
        for val in vals {
            // the narrowest value type that holds the value, and i64
            let tys: Vec<u8> = [8u8, 16, 32, 64].into_iter().filter(|&b| b == 64 || (n <= b && val >= -(1i64 << (b - 1)) && val < (1i64 << (b - 1)))).collect();
            let first = tys[0];
            v.push(Op::Twoc { bits: first, v: val, n });
            if first != 64 && full {
                v.push(Op::Twoc { bits: 64, v: val, n });
            }
        }
    }
    let zeros: Vec<u16> = if full { (0..=130).chain([191, 192, 193, 1000]).collect() } else { (0..=18).chain([31, 32, 33, 63, 64, 65, 66, 127, 128, 129, 191, 192, 193, 1000]).collect() };
    for n in zeros {
        v.push(Op::Zeros { n });
    }
    v.push(Op::Align);
    v.push(Op::Bytes { b: vec![] });
    v.push(Op::Bytes { b: vec![0xFF] });
    v.push(Op::Bytes { b: vec![0xA5, 0x01] });
    v.push(Op::Bytes { b: vec![0x80, 0x00, 0x7F] });
    v
}

/// Ops that change the offset class in distinct ways (for depth 3).
fn reduced_alphabet() -> Vec<Op> {
    let mut v = Vec::new();
    for (bits, n) in [(8u8, 0u8), (8, 3), (8, 8), (16, 9), (32, 0), (32, 31), (64, 0), (64, 1), (64, 63), (64, 64)] {
        v.push(Op::Msbs { bits, v: u64::MAX >> (64 - bits as u32), n });
        v.push(Op::Lsbs { bits, v: LCGC & (u64::MAX >> (64 - bits as u32)), n });
    }
    for bits in [8u8, 16, 32, 64] {
        v.push(Op::Write { bits, v: 0xA5A5_A5A5_A5A5_A5A5 & (u64::MAX >> (64 - bits as u32)) });
    }
    for n in [0u16, 1, 7, 8, 61, 64, 65, 130] {
        v.push(Op::Zeros { n });
    }
    v.push(Op::Twoc { bits: 32, v: -3, n: 5 });
    v.push(Op::Twoc { bits: 64, v: i64::MIN, n: 64 });
    v.push(Op::Align);
    v.push(Op::Bytes { b: vec![0xC3] });
    v
}

trait Probe: BitSink + Clone + Default {
    const NAME: &'static str;
    fn bits(&self) -> (usize, Vec<u8>);
    fn tail_ok(&self) -> bool;
    fn exports(&self) -> (Vec<u8>, String);
}

impl Probe for MemSink<u8> {
    const NAME: &'static str = "MemSink<u8>";
    fn bits(&self) -> (usize, Vec<u8>) {
        (self.len(), self.as_slice().to_vec())
    }
    fn tail_ok(&self) -> bool {
        let n = self.len();
        let s = self.as_slice();
        // storage may not be longer than needed and bits beyond the length must be zero
        if s.len() != (n + 7) / 8 {
            return false;
        }
        n % 8 == 0 || s[s.len() - 1] & (0xFFu8 >> (n % 8)) == 0
    }
    fn exports(&self) -> (Vec<u8>, String) {
        // the destination is not zero beforehand: an export overwrites every byte it covers
        let mut d = vec![0xA5u8; (self.len() + 7) / 8];
        self.write_to_byte_slice(&mut d);
        (d, self.to_bitstring())
    }
}

impl Probe for MemSink<u64> {
    const NAME: &'static str = "MemSink<u64>";
    fn bits(&self) -> (usize, Vec<u8>) {
        let mut v = Vec::new();
        for x in self.as_slice() {
            v.extend_from_slice(&x.to_be_bytes());
        }
        let n = self.len();
        let keep = (n + 7) / 8;
        // anything beyond the used bytes must be zero (checked by tail_ok)
        v.truncate(keep.max(0));
        (n, v)
    }
    fn tail_ok(&self) -> bool {
        let n = self.len();
        let s = self.as_slice();
        if s.len() != (n + 63) / 64 {
            return false;
        }
        n % 64 == 0 || s[s.len() - 1] & (u64::MAX >> (n % 64)) == 0
    }
    fn exports(&self) -> (Vec<u8>, String) {
        // the destination is not zero beforehand: an export overwrites every byte it covers
        let mut d = vec![0xA5u8; (self.len() + 7) / 8];
        self.write_to_byte_slice(&mut d);
        (d, self.to_bitstring())
    }
}

/// The user-defined sink: only the required operations are implemented, so `write_bytes_aligned`,
/// `write_twoc` and `write_zeros` are the trait's provided methods.
impl Probe for ModelSink {
    const NAME: &'static str = "user sink (provided methods)";
    fn bits(&self) -> (usize, Vec<u8>) {
        (self.bits.len(), crate::bitmodel::bytes_of_bits(&self.bits))
    }
    fn tail_ok(&self) -> bool {
        true
    }
    fn exports(&self) -> (Vec<u8>, String) {
        (crate::bitmodel::bytes_of_bits(&self.bits), self.bits.iter().map(|b| if *b { '1' } else { '0' }).collect())
    }
}

fn seq_json(sink: &str, start: usize, ops: &[&Op]) -> Value {
    json!({"sink_ops": {"sink": sink, "start_offset": start, "ops": ops}})
}

fn start_sink<S: Probe>(start: usize) -> (S, BitStr) {
    let mut s = S::default();
    let mut m = BitStr::default();
    if start > 0 {
        // reach the offset with pattern bits through the most common primitive
        let pat = 0xDEAD_BEEF_CAFE_F00Du64;
        s.write_msbs(pat, start).unwrap_or_else(|_| unreachable!());
        m.push(pat >> (64 - start), start);
    }
    (s, m)
}

/// Compares a sink with the model; returns a description of the first disagreement.
fn compare<S: Probe>(s: &S, m: &BitStr, deep: bool) -> Option<(String, String)> {
    let (n, bytes) = s.bits();
    if n != m.len {
        return Some(("length".into(), format!("len() = {n}, ideal bit string has {} bits", m.len)));
    }
    if bytes != m.bytes() {
        let mb = m.bytes();
        let at = bytes.iter().zip(mb.iter()).position(|(a, b)| a != b);
        return Some(("bits".into(), format!("stored bits differ from the ideal bit string at byte {at:?} (sink {:02x?}.., ideal {:02x?}..)", &bytes[at.unwrap_or(0)..bytes.len().min(at.unwrap_or(0) + 4)], &mb[at.unwrap_or(0).min(mb.len())..mb.len().min(at.unwrap_or(0) + 4)])));
    }
    if !s.tail_ok() {
        return Some(("tail".into(), "bits beyond the length are not zero (or the storage is longer than the length needs)".into()));
    }
    if deep {
        let (d, bs) = s.exports();
        if d != m.bytes() {
            return Some(("write_to_byte_slice".into(), "write_to_byte_slice exports different bytes".into()));
        }
        let clean: String = bs.chars().filter(|c| *c == '0' || *c == '1').collect();
        if clean != m.bitstring() {
            return Some(("to_bitstring".into(), format!("to_bitstring() = {bs:?}, ideal = {:?}", m.bitstring())));
        }
    }
    None
}

fn opclass(op: &Op) -> String {
    match op {
        Op::Write { bits, .. } => format!("write<u{bits}>"),
        Op::Msbs { bits, n, .. } => format!("write_msbs<u{bits}>(n{})", if *n == 0 { "=0" } else if n == bits { "=BITS" } else { "" }),
        Op::Lsbs { bits, n, .. } => format!("write_lsbs<u{bits}>(n{})", if *n == 0 { "=0" } else if n == bits { "=BITS" } else { "" }),
        Op::Twoc { bits, .. } => format!("write_twoc<i{bits}>"),
        Op::Zeros { .. } => "write_zeros".into(),
        Op::Align => "align_to_byte".into(),
        Op::Bytes { .. } => "write_bytes_aligned".into(),
    }
}

/// Runs `ops` one after another from `start`; checks after every step; returns false on violation.
fn run_sequence<S: Probe>(rep: &Report, start: usize, ops: &[&Op], deep: bool) -> bool {
    let (mut s, mut m) = start_sink::<S>(start);
    for (i, op) in ops.iter().enumerate() {
        let r = panicx::catch(|| apply(&mut s, op));
        model_apply(&mut m, op);
        match r {
            Err(p) => {
                rep.violation(&format!("{}|{}|{}", S::NAME, opclass(op), p.class()), &format!("{}: op {i} ({op:?}) after {} bits panicked: {}", S::NAME, m.len, p.describe()), seq_json(S::NAME, start, &ops[..=i]), (start + i * 100) as u64);
                return false;
            }
            Ok(Err(e)) => {
                rep.violation(&format!("{}|{}|error", S::NAME, opclass(op)), &format!("{}: op {i} ({op:?}) returned an error: {e}", S::NAME), seq_json(S::NAME, start, &ops[..=i]), (start + i * 100) as u64);
                return false;
            }
            Ok(Ok(())) => {}
        }
        let cmp = match panicx::catch(|| compare(&s, &m, deep)) {
            Ok(c) => c,
            Err(p) => {
                rep.violation(&format!("{}|export_{}", S::NAME, p.class()), &format!("{}: reading the sink back after op {i} ({op:?}) panicked: {}", S::NAME, p.describe()), seq_json(S::NAME, start, &ops[..=i]), (start + i * 100) as u64);
                return false;
            }
        };
        if let Some((what, detail)) = cmp {
            // attribute the disagreement to the last two ops (a deferred carry shows up one op late)
            let culprit = if i > 0 && what != "length" { format!("{}+{}", opclass(ops[i - 1]), opclass(op)) } else { opclass(op) };
            rep.violation(&format!("{}|{what}|{culprit}", S::NAME), &format!("{}: after op {i} ({op:?}): {detail}", S::NAME), seq_json(S::NAME, start, &ops[..=i]), (start + i * 100) as u64);
            return false;
        }
    }
    true
}

fn sweep<S: Probe>(rep: &Arc<Report>, alpha: &[Op], reduced: &[Op], depth3: bool) {
    let probe = Op::Write { bits: 8, v: 0xFF };
    let n = alpha.len();
    // work item = (start offset, first op)
    par_for(
        rep,
        64 * n,
        Duration::from_secs(600),
        |i| seq_json(S::NAME, i / n, &[&alpha[i % n]]),
        |i, local| {
            let (start, a) = (i / n, &alpha[i % n]);
            // depth 1, with all exports
            local.evals += 1;
            if !run_sequence::<S>(rep, start, &[a, &probe], true) {
                local.outcome("violation@depth1");
                return;
            }
            // state after the first op, reused for every second op
            let (mut s1, mut m1) = start_sink::<S>(start);
            if panicx::catch(|| apply(&mut s1, a)).is_err() {
                return;
            }
            model_apply(&mut m1, a);
            let mut bad = 0u32;
            for b in alpha {
                local.evals += 1;
                let mut s = s1.clone();
                let mut m = m1.clone();
                let r = panicx::catch(|| apply(&mut s, b).and_then(|()| apply(&mut s, &probe)));
                model_apply(&mut m, b);
                model_apply(&mut m, &probe);
                let okay = matches!(r, Ok(Ok(()))) && matches!(panicx::catch(|| compare(&s, &m, false)), Ok(None));
                if !okay {
                    bad += 1;
                    // re-run step by step to classify and record
                    run_sequence::<S>(rep, start, &[a, b, &probe], false);
                }
            }
            if bad == 0 {
                local.nontrivial.insert(universe::fnv(&format!("{}/{start}/{a:?}", S::NAME)));
            }
            local.outcome(if bad == 0 { "ok" } else { "violation@depth2" });
            // only first ops that belong to the reduced alphabet start depth-3 sequences
            if depth3 && reduced.contains(a) {
                for b in reduced {
                    for c in reduced {
                        local.evals += 1;
                        run_sequence::<S>(rep, start, &[a, b, c, &probe], false);
                    }
                }
            }
        },
    );
}

/// A user-defined sink with only the required methods receives the same bits as `ByteSink`.
fn corpus_cases(thorough: bool) -> Vec<Case> {
    let mut v: Vec<Case> = Vec::new();
    let uni = universe::Universe::new(1, false, true);
    for sh in &uni.shards {
        uni.for_each_in_shard(sh, |p| v.push(universe::decode(p)));
    }
    let g = super::ustream::g9(if thorough { &[64, 192, 576] } else { &[192] });
    let step = if thorough { 7 } else { 97 };
    v.extend(g.cases.into_iter().step_by(step));
    v
}

fn check_user_sink<C: BitRepr>(rep: &Report, local: &mut Local, kind: &str, c: &C, case: &Case) {
    local.count("components_to_user_sink", 1);
    // a write of the same component that the sink refuses (at its first or at its second operation,
    // alternating) precedes the judged writes: what a refused write leaves on the thread must not reach
    // the next sink
    let k = local.evals as usize % 2 + usize::from(kind == "stream") * 3;
    let _ = panicx::catch(|| {
        let mut f = crate::bitmodel::FailingSink::new(k, crate::bitmodel::Flavour::Full);
        let _ = c.write(&mut f);
    });
    local.count("refused_writes_before_the_judged_ones", 1);
    let r = panicx::catch(|| {
        let mut a = ByteSink::new();
        let mut b = ModelSink::default();
        let mut w = MemSink::<u64>::new();
        c.write(&mut a).map_err(|e| format!("{e:?}"))?;
        c.write(&mut b).map_err(|e| format!("{e:?}"))?;
        c.write(&mut w).map_err(|e| format!("{e:?}"))?;
        let mut wb = vec![0u8; (w.len() + 7) / 8];
        w.write_to_byte_slice(&mut wb);
        Ok::<_, String>((a.len(), a.into_inner(), b.bits, w.len(), wb))
    });
    match r {
        Ok(Ok((n, bytes, bits, wn, wbytes))) => {
            let want = crate::bitmodel::bits_of_bytes(&bytes, n);
            if bits != want {
                let at = bits.iter().zip(want.iter()).position(|(x, y)| x != y);
                rep.violation(&format!("user_sink_differs|{kind}"), &format!("{kind}: a sink implementing only the required methods received {} bits, ByteSink {} bits; first difference at bit {at:?}", bits.len(), n), case.json(), case.weight());
            }
            if wn != n || wbytes != bytes {
                rep.violation(&format!("u64_sink_differs|{kind}"), &format!("{kind}: MemSink<u64> holds {wn} bits, ByteSink {n} bits, or different content"), case.json(), case.weight());
            }
        }
        Ok(Err(e)) => rep.violation(&format!("user_sink_error|{kind}"), &format!("{kind}: {e}"), case.json(), case.weight()),
        Err(p) => rep.violation(&format!("user_sink_{}|{kind}", p.class()), &format!("{kind}: {}", p.describe()), case.json(), case.weight()),
    }
}

fn run_user_sink(rep: &Arc<Report>, thorough: bool) {
    let cases = corpus_cases(thorough);
    let n = cases.len();
    let chunk = 16;
    par_for(
        rep,
        (n + chunk - 1) / chunk,
        Duration::from_secs(300),
        |i| cases[i * chunk].json(),
        |i, local| {
            for (j, c) in cases[i * chunk..((i + 1) * chunk).min(n)].iter().enumerate() {
                local.evals += 1 + (j as u64 & 1);
                let samples = c.input.samples();
                let Ok(s) = subject::encode(c, &samples, Mode::St) else { continue };
                if s.count_bits() > (1 << 26) {
                    continue;
                }
                check_user_sink(rep, local, "stream", &s, c);
                for i in 0..s.frame_count() {
                    let fr = s.frame(i).unwrap();
                    check_user_sink(rep, local, "frame", fr, c);
                    check_user_sink(rep, local, "frame_header", fr.header(), c);
                    for ch in 0..fr.subframe_count() {
                        check_user_sink(rep, local, "subframe", fr.subframe(ch).unwrap(), c);
                    }
                    let mut pre = fr.clone();
                    pre.precompute_bitstream();
                    check_user_sink(rep, local, "precomputed_frame", &pre, c);
                }
                local.nontrivial.insert(c.id());
            }
        },
    );
    rep.extra("user_sink_corpus_cases", json!(n));
}

pub fn run(args: &Args, rep: &Arc<Report>) {
    let thorough = args.tier == "thorough";
    if let Some(p) = &args.replay {
        let s = std::fs::read_to_string(p).unwrap_or_default();
        let v: Value = serde_json::from_str(&s).unwrap_or(Value::Null);
        let c = v.get("case").cloned().unwrap_or(v);
        if let Some(so) = c.get("sink_ops") {
            let ops: Vec<Op> = serde_json::from_value(so["ops"].clone()).expect("bad ops");
            let refs: Vec<&Op> = ops.iter().collect();
            let start = so["start_offset"].as_u64().unwrap_or(0) as usize;
            if so["sink"].as_str() == Some("MemSink<u8>") {
                run_sequence::<MemSink<u8>>(rep, start, &refs, true);
            } else if so["sink"].as_str() == Some(<ModelSink as Probe>::NAME) {
                run_sequence::<ModelSink>(rep, start, &refs, true);
            } else {
                run_sequence::<MemSink<u64>>(rep, start, &refs, true);
            }
        } else if let Ok(case) = serde_json::from_value::<Case>(c) {
            let samples = case.input.samples();
            let mut local = Local::default();
            if let Ok(s) = subject::encode(&case, &samples, Mode::St) {
                check_user_sink(rep, &mut local, "stream", &s, &case);
                for i in 0..s.frame_count() {
                    let fr = s.frame(i).unwrap();
                    check_user_sink(rep, &mut local, "frame", fr, &case);
                    check_user_sink(rep, &mut local, "frame_header", fr.header(), &case);
                    for ch in 0..fr.subframe_count() {
                        check_user_sink(rep, &mut local, "subframe", fr.subframe(ch).unwrap(), &case);
                    }
                    let mut pre = fr.clone();
                    pre.precompute_bitstream();
                    check_user_sink(rep, &mut local, "precomputed_frame", &pre, &case);
                }
            }
            rep.merge(local);
        }
        rep.set_rule("replay of one recorded case");
        return;
    }
    let alpha = alphabet(thorough);
    let reduced = reduced_alphabet();
    rep.extra("alphabet_size", json!(alpha.len()));
    rep.extra("reduced_alphabet_size", json!(reduced.len()));
    rep.sample(seq_json("MemSink<u64>", 3, &[&alpha[1], &alpha[alpha.len() / 2]]));
    rep.sample(seq_json("MemSink<u8>", 61, &[&alpha[alpha.len() - 1], &alpha[7]]));
    sweep::<MemSink<u8>>(rep, &alpha, &reduced, thorough);
    sweep::<MemSink<u64>>(rep, &alpha, &reduced, thorough);
    sweep::<ModelSink>(rep, &alpha, &reduced, thorough);
    run_user_sink(rep, thorough);
    rep.set_rule(&format!(
        "operation alphabet of {} ops (write<u8..u64>, write_msbs/write_lsbs for every n in 0..=BITS, write_twoc for every width 0..=64, write_zeros, align_to_byte, write_bytes_aligned of 0..=3 bytes; {} operand values); for MemSink<u8>, MemSink<u64> and a user-defined sink that implements only the required operations (so that the trait's provided write_bytes_aligned / write_twoc / write_zeros run): every start offset 0..=63 x every op x every op, followed by a probe write(0xFFu8); after every step len(), stored bits, zero tail (and at depth 1 write_to_byte_slice / to_bitstring) are compared with an ideal MSB-first bit string{}; plus: every stream/frame/header/subframe of a corpus written into a user sink implementing only the required methods, into ByteSink and into MemSink<u64> must hold the same bits (each comparison is preceded by a write of the component that the sink refuses at its first / second operation); non-trivial = a (sink, start offset, first op) whose whole fan-out was executed and agreed",
        alpha.len(),
        if thorough { "all 7" } else { "3 of 7" },
        if thorough { format!("; depth 3 over a reduced alphabet of {} ops", reduced.len()) } else { String::new() }
    ));
}
