//! C05 (breadth part, real threads) - multi-thread bytes == single-thread bytes == frame-level
//! assembly over the input/configuration universe, for worker counts 1, 2, 3 and 16.
//!
//! Each encode here runs under ONE schedule chosen by the operating system; the schedule
//! quantifier of the property is decided by the loom/stateright engine (`parx`). This part extends
//! the comparison to inputs and configurations the small loom scenarios cannot afford, and adds
//! long streams (more blocks than the hashing queue holds).
use super::ustream::drive;
use crate::report::{par_for, Local, Report};
use crate::subject::{self, EncFail, Mode};
use crate::universe::{self, Case};
use crate::Args;
use serde_json::json;
use std::sync::Arc;
use std::time::Duration;

const WORKERS: [u8; 4] = [1, 2, 3, 16];

fn check_case(rep: &Report, case: &Case, labels: &[String], local: &mut Local, workers: &[u8], repeats: usize) {
    let samples = case.input.samples();
    local.evals += 1;
    for l in labels {
        local.dim(l);
    }
    let st = match subject::encode_bytes(case, &samples, Mode::St) {
        Ok((_, b)) => b,
        Err(EncFail::TooBig(_)) => {
            local.count("giant_streams_not_serialised", 1);
            return;
        }
        Err(e) => {
            rep.violation(&format!("encode_fail|{}", e.class()), &format!("st: {}", e.describe()), case.json(), case.weight());
            return;
        }
    };
    match subject::encode_bytes(case, &samples, Mode::Frame) {
        Ok((_, b)) => {
            if b != st {
                let at = b.iter().zip(st.iter()).position(|(x, y)| x != y);
                rep.violation_conclusive("frame_level_vs_st", &format!("frame-by-frame assembly ({} bytes) differs from the single-thread stream ({} bytes) at byte {at:?}", b.len(), st.len()), case.json(), case.weight());
            }
        }
        Err(EncFail::TooBig(_)) => {}
        Err(e) => rep.violation(&format!("encode_fail|{}", e.class()), &format!("frame: {}", e.describe()), case.json(), case.weight()),
    }
    let mut ok = true;
    for &w in workers {
        let mut c = case.clone();
        c.cfg.workers = w;
        for rep_i in 0..repeats {
            match subject::encode_bytes(&c, &samples, Mode::Mt) {
                Ok((_, b)) => {
                    if b != st {
                        ok = false;
                        let at = b.iter().zip(st.iter()).position(|(x, y)| x != y);
                        rep.violation_conclusive(
                            if at.map_or(false, |a| a < 42) { "mt_vs_st|streaminfo" } else { "mt_vs_st|frames" },
                            &format!("multi-thread stream with {w} workers (run {rep_i}, {} bytes) differs from the single-thread stream ({} bytes) at byte {at:?}", b.len(), st.len()),
                            c.json(),
                            c.weight(),
                        );
                    }
                }
                Err(EncFail::TooBig(_)) => {}
                Err(e) => {
                    ok = false;
                    rep.violation_conclusive(&format!("encode_fail|{}", e.class()), &format!("mt{w}: {}", e.describe()), c.json(), c.weight());
                }
            }
        }
    }
    // a source that delivers in packets (short reads before the end): both modes must still agree
    if case.input.nblocks() >= 2 && labels.len() <= 1 {
        let (ch, bps, rate, bs) = (case.input.ch as usize, case.input.bps as usize, case.input.rate as usize, case.input.bs as usize);
        let run = |mt: bool, empty_first: bool| -> Result<Vec<u8>, String> {
            let mut c = case.clone();
            c.cfg.workers = 2;
            let cfg = subject::verified(&c.cfg, mt, bs).map_err(|e| e.describe())?;
            let src = subject::PacketSource { ch, bps, rate, samples: samples.clone(), pos: 0, reads: 0, empty_first };
            match crate::panicx::catch(|| flacenc::encode_with_fixed_block_size(&cfg, src, bs)) {
                Ok(Ok(s)) => subject::stream_bytes(&s).map_err(|e| e.describe()),
                Ok(Err(e)) => Err(format!("{e:?}")),
                Err(p) => Err(p.describe()),
            }
        };
        // ... also when every packet is preceded by an empty fill
        let st = run(false, false);
        match (st.clone(), run(true, true)) {
            (Ok(a), Ok(b)) => {
                if a != b {
                    let at = a.iter().zip(b.iter()).position(|(x, y)| x != y);
                    rep.violation_conclusive("mt_vs_st|empty_fills", &format!("for a source that issues an empty fill before each packet the multi-thread stream ({} bytes) differs from the single-thread stream ({} bytes) at byte {at:?}", b.len(), a.len()), case.json(), case.weight());
                }
                local.count("empty_fill_source_comparisons", 1);
            }
            (a, b) => {
                if a.is_err() != b.is_err() {
                    rep.violation_conclusive("mt_vs_st|empty_fills_result", &format!("source with empty fills: single-thread {:?}, multi-thread {:?}", a.err(), b.err()), case.json(), case.weight());
                }
            }
        }
        match (st, run(true, false)) {
            (Ok(a), Ok(b)) => {
                if a != b {
                    let at = a.iter().zip(b.iter()).position(|(x, y)| x != y);
                    rep.violation_conclusive("mt_vs_st|packet_source", &format!("for a source that delivers in packets the multi-thread stream ({} bytes) differs from the single-thread stream ({} bytes) at byte {at:?}", b.len(), a.len()), case.json(), case.weight());
                }
                local.count("packet_source_comparisons", 1);
            }
            (a, b) => {
                if a.is_err() != b.is_err() {
                    rep.violation_conclusive("mt_vs_st|packet_source_result", &format!("packet source: single-thread {:?}, multi-thread {:?}", a.err(), b.err()), case.json(), case.weight());
                }
            }
        }
    }
    if case.input.nblocks() >= 2 {
        local.nontrivial.insert(case.id());
    }
    local.outcome(if ok { "ok" } else { "violation" });
}

/// Long streams: more blocks than the 16-slot hashing queue, cheap to encode, fast sources.
fn long_cases() -> Vec<Case> {
    let mut v = Vec::new();
    for &(ch, bps, delivery) in &[(1u8, 8u8, 2u8), (2, 16, 2), (2, 16, 1), (1, 24, 0), (8, 16, 2)] {
        for &bs in &[32u32, 64] {
            let mut c = universe::decode(&universe::base_points()[0]);
            c.input.ch = ch;
            c.input.bps = bps;
            c.input.delivery = delivery;
            c.input.bs = bs;
            c.input.full = 200;
            c.input.tail = 5;
            // 1-LSB noise seeded by the block index: cheap to encode, every block different
            c.input.atoms = [19, 19, 19, 19];
            v.push(c);
        }
    }
    // enough frames for a two-byte frame number well inside its range (the frame-size bounds of
    // STREAMINFO come from count_bits in one mode and from the precomputed bytes in the other)
    for &(full, atom) in &[(1300u32, 1u8), (2100, 19)] {
        let mut c = universe::decode(&universe::base_points()[0]);
        c.input.bs = 32;
        c.input.full = full;
        c.input.tail = 0;
        c.input.atoms = [atom; 4];
        v.push(c);
    }
    v
}

pub fn run(args: &Args, rep: &Arc<Report>) {
    let thorough = args.tier == "thorough";
    let d = if thorough { 2 } else { 1 };
    drive(args, rep, d, true, vec![], |case, labels, local| {
        if rep.want_sample() {
            rep.sample(case.json());
        }
        let workers: &[u8] = if thorough && labels.len() == 2 { &[2, 3] } else { &WORKERS };
        // a replay repeats the (schedule-dependent) comparison many times
        let repeats = if args.replay.is_some() { 40 } else { 2 };
        check_case(rep, case, labels, local, workers, repeats);
    });
    if args.replay.is_none() {
        let cases = long_cases();
        let n = cases.len();
        // run one at a time so that the machine's cores are available to the encoder's own threads
        par_for(rep, 1, Duration::from_secs(600), |_| json!("long streams"), |_, local| {
            for c in &cases {
                local.set_current(c);
                check_case(rep, c, &["long".to_string()], local, &[2, 4, 16, 64], if thorough { 40 } else { 10 });
            }
        });
        rep.extra("long_stream_cases", json!(n));
        // the empty input and inputs of at most one block through every delivery (length hints of 0, exact,
        // rounded up / down, absent): two coordinates away from every base point, so outside U_1
        let mut shorts: Vec<Case> = Vec::new();
        for b in 0..universe::base_points().len() {
            for delivery in 0..6u8 {
                for (full, tail) in [(0u32, 0u32), (0, 1), (0, 17), (1, 0)] {
                    let mut c = universe::decode(&universe::base_points()[b]);
                    c.input.delivery = delivery;
                    c.input.full = full;
                    c.input.tail = tail;
                    shorts.push(c);
                }
            }
        }
        let ns = shorts.len();
        par_for(rep, ns, Duration::from_secs(600), |i| shorts[i].json(), |i, local| {
            local.set_current(&shorts[i]);
            check_case(rep, &shorts[i], &["short".to_string()], local, &[1, 2, 3], 2);
        });
        rep.extra("short_input_cases", json!(ns));
        // worker count taken from the environment override (config.workers = None): values loom
        // cannot host (more than 3 workers) and unusual spellings; serial phase, no other thread
        // of the harness is running while the variable changes
        let envs = ["1", "4", "5", "16", "100", "300", "+2", " 3", "-1", "0", "", "two", "18446744073709551615", "18446744073709551616"];
        let mut local = Local::default();
        for e in envs {
            std::env::set_var("FLACENC_WORKERS", e);
            for b in [1usize, 2, 4] {
                let mut c = universe::decode(&universe::base_points()[b]);
                c.cfg.workers = 0;
                check_case(rep, &c, &[format!("env={e:?}")], &mut local, &[0], 2);
            }
        }
        std::env::remove_var("FLACENC_WORKERS");
        for b in [1usize, 2] {
            let mut c = universe::decode(&universe::base_points()[b]);
            c.cfg.workers = 0;
            check_case(rep, &c, &["env=unset".to_string()], &mut local, &[0], 2);
        }
        std::env::set_var("FLACENC_WORKERS", "2");
        rep.merge(local);
        rep.extra("environment_override_values", json!(envs));
    }
    rep.add_rule("breadth part (real threads, one OS schedule per encode; supplementary to the loom/stateright exploration): for every case, single-thread bytes == frame-level assembly == multi-thread bytes for workers {1,2,3,16}, each multi-thread encode repeated twice; long streams (200 blocks of 32/64 samples + tail, cheap content, workers {2,4,16,64}, 10/40 repetitions) so that the hashing queue can fill; the empty input and inputs of at most one block x six deliveries x six base points; the environment override FLACENC_WORKERS over {1,4,5,16,100,300,+2,\" 3\",-1,0,\"\",two,2^64-1,2^64, unset} with config.workers = None; non-trivial = at least two frames");
}
