//! C03 - STREAMINFO states the true format, sample count and MD5 of the input.
//!
//! Dense product over width x channels x sign-heavy atoms x lengths x block sizes x three
//! deliveries x {ST, MT with 1..3 workers, frame-level}; the MD5 oracle is the harness's own
//! serialisation (sign-extended, ceil(bps/8) bytes, little endian, interleaved) hashed by `md-5`.
use super::ustream::load_replay_case;
use crate::report::{par_for, Local, Report};
use crate::strictflac;
use crate::subject::{self, EncFail, Mode};
use crate::universe::{self, Case, Cfg, Input};
use crate::Args;
use md5::{Digest, Md5};
use serde_json::json;
use std::sync::Arc;
use std::time::Duration;

pub fn md5ref(samples: &[i32], bps: usize) -> [u8; 16] {
    let nb = (bps + 7) / 8;
    let mut h = Md5::new();
    let mut buf = Vec::with_capacity(samples.len() * nb);
    for &s in samples {
        let v = s as i64; // sign extension
        for k in 0..nb {
            buf.push(((v >> (8 * k)) & 0xFF) as u8);
        }
    }
    h.update(&buf);
    h.finalize().into()
}

/// STREAMINFO facts of one encode: (rate, channels, bps, total, md5).
type Facts = (u32, u32, u32, u64, [u8; 16]);

fn facts_of(bytes: &[u8]) -> Result<Facts, String> {
    let f = strictflac::parse(bytes)?;
    Ok((f.info.rate, f.info.channels, f.info.bps, f.info.total, f.info.md5))
}

pub fn check_case(rep: &Report, case: &Case, local: &mut Local, worker_counts: &[u8]) {
    let samples = case.input.samples();
    let inp = &case.input;
    local.evals += 1;
    local.dim(&format!("bps={}", inp.bps));
    local.dim(&format!("ch={}", inp.ch));
    local.dim(&format!("bs={}", inp.bs));
    let want: Facts = (inp.rate, inp.ch as u32, inp.bps as u32, inp.len() as u64, md5ref(&samples, inp.bps as usize));
    let mut seen: Vec<(String, Facts)> = Vec::new();
    for delivery in 0..6u8 {
        let mut c = case.clone();
        c.input.delivery = delivery;
        let mut runs: Vec<(String, Mode, u8)> = vec![("st".into(), Mode::St, 0), ("frame".into(), Mode::Frame, 0)];
        for &w in worker_counts {
            runs.push((format!("mt{w}"), Mode::Mt, w));
        }
        for (name, mode, w) in runs {
            if mode == Mode::Frame && delivery == 0 {
                continue; // frame-level assembly has two deliveries only (ints, bytes)
            }
            c.cfg.workers = w;
            let label = format!("{name}/d{delivery}");
            let stream = match subject::encode(&c, &samples, mode) {
                Ok(s) => s,
                Err(e) => {
                    local.outcome(&format!("fail:{}", e.class()));
                    rep.violation_x(mode == Mode::Mt, &format!("encode_fail|{}", e.class()), &format!("{label}: {}", e.describe()), c.json(), c.weight());
                    continue;
                }
            };
            // accessor view
            let si = stream.stream_info();
            let acc: Facts = (
                si.sample_rate() as u32,
                si.channels() as u32,
                si.bits_per_sample() as u32,
                si.total_samples() as u64,
                *si.md5_digest(),
            );
            // byte view (first 42 bytes of the emitted stream); a write of another stream that the sink
            // refuses at its k-th operation (k cycles through the positions inside and after STREAMINFO)
            // comes first on this thread
            subject::refused_stream_write((local.evals % 14) as usize, local.evals % 28 >= 14);
            local.count("refused_stream_writes_before_the_judged_serialisation", 1);
            let bytes = match subject::stream_bytes(&stream) {
                Ok(b) => b,
                Err(EncFail::TooBig(_)) => {
                    local.count("giant_streams_not_serialised", 1);
                    continue;
                }
                Err(e) => {
                    rep.violation(&format!("encode_fail|{}", e.class()), &format!("{label}: {}", e.describe()), c.json(), c.weight());
                    continue;
                }
            };
            let got = match facts_of(&bytes) {
                Ok(g) => g,
                Err(e) => {
                    rep.violation(&format!("strict_reject|{}", strictflac::clause(&e)), &format!("{label}: {e}"), c.json(), c.weight());
                    continue;
                }
            };
            // the same STREAMINFO whichever sink receives the stream
            if bytes.len() <= 1 << 16 {
                match subject::stream_bytes_other_sinks(&stream) {
                    Ok((wb, mb)) => {
                        for (name, b) in [("MemSink<u64>", &wb), ("a user sink with the required operations only", &mb)] {
                            if b[..] != bytes[..] {
                                let at = b.iter().zip(bytes.iter()).position(|(x, y)| x != y).unwrap_or(b.len().min(bytes.len()));
                                rep.violation(
                                    if at < 42 { "sink_dependence|streaminfo" } else { "sink_dependence|frames" },
                                    &format!("{label}: the stream written into {name} differs from the one written into ByteSink at byte {at} (lengths {} / {})", b.len(), bytes.len()),
                                    c.json(),
                                    c.weight(),
                                );
                            }
                        }
                        local.count("streams_compared_across_three_sinks", 1);
                    }
                    Err(e) => rep.violation(&format!("encode_fail|other_sinks|{}", e.class()), &format!("{label}: {}", e.describe()), c.json(), c.weight()),
                }
            }
            if acc != got {
                rep.violation("accessor_vs_bytes", &format!("{label}: StreamInfo accessors {acc:?} differ from the serialised STREAMINFO {got:?}"), c.json(), c.weight());
            }
            let mut ok = true;
            if (got.0, got.1, got.2) != (want.0, want.1, want.2) {
                ok = false;
                rep.violation_x(mode == Mode::Mt, "format_fields", &format!("{label}: STREAMINFO states rate/ch/bps {:?}, source has {:?}", (got.0, got.1, got.2), (want.0, want.1, want.2)), c.json(), c.weight());
            }
            if got.3 != want.3 {
                ok = false;
                rep.violation_x(mode == Mode::Mt, "total_samples", &format!("{label}: STREAMINFO total samples {} but the source delivered {}", got.3, want.3), c.json(), c.weight());
            }
            if got.4 != want.4 {
                ok = false;
                rep.violation_x(
                    mode == Mode::Mt,
                    if inp.len() == 0 { "md5_empty_input" } else { "md5" },
                    &format!("{label}: STREAMINFO MD5 {:02x?} differs from the MD5 of the little-endian input {:02x?}", got.4, want.4),
                    c.json(),
                    c.weight(),
                );
            }
            local.outcome(if ok { "ok" } else { "violation" });
            seen.push((label, got));
        }
    }
    // a MemSource of which the first block was already consumed, and one that is exhausted: the
    // stream describes what the encoder consumed, not what the source once held
    if inp.ch <= 2 && inp.full >= 1 {
        for (name, pre) in [("partly_consumed", inp.bs as usize), ("exhausted", inp.len())] {
            for mt in [false, true] {
                let label = format!("{}{}/memsource_{name}", if mt { "mt" } else { "st" }, if mt { "2" } else { "" });
                let rest = &samples[(pre * inp.ch as usize).min(samples.len())..];
                let want2: Facts = (inp.rate, inp.ch as u32, inp.bps as u32, (rest.len() / inp.ch as usize) as u64, md5ref(rest, inp.bps as usize));
                let mut c = case.clone();
                c.cfg.workers = 2;
                let r = crate::panicx::catch(|| -> Result<Facts, String> {
                    use flacenc::source::Source;
                    let cfg = subject::verified(&c.cfg, mt, inp.bs as usize).map_err(|e| e.describe())?;
                    let mut src = flacenc::source::MemSource::from_samples(&samples, inp.ch as usize, inp.bps as usize, inp.rate as usize);
                    // consume `pre` inter-channel samples through a scratch buffer, block by block
                    let mut scratch = flacenc::source::FrameBuf::with_size(inp.ch as usize, inp.bs as usize).map_err(|e| format!("{e:?}"))?;
                    let mut left = pre;
                    while left > 0 {
                        let n = src.read_samples(left.min(inp.bs as usize), &mut scratch).map_err(|e| format!("{e:?}"))?;
                        if n == 0 {
                            break;
                        }
                        left -= n.min(left);
                    }
                    let s = flacenc::encode_with_fixed_block_size(&cfg, &mut src, inp.bs as usize).map_err(|e| format!("{e:?}"))?;
                    let si = s.stream_info();
                    Ok((si.sample_rate() as u32, si.channels() as u32, si.bits_per_sample() as u32, si.total_samples() as u64, *si.md5_digest()))
                });
                match r {
                    Ok(Ok(got)) => {
                        if got.3 != want2.3 {
                            rep.violation_x(mt, &format!("total_samples|memsource_{name}"), &format!("{label}: STREAMINFO total samples {} but the encoder consumed {} from the source", got.3, want2.3), c.json(), c.weight());
                        } else if got != want2 {
                            rep.violation_x(mt, &format!("md5|memsource_{name}"), &format!("{label}: STREAMINFO {:?} differs from {:?}", got, want2), c.json(), c.weight());
                        } else {
                            local.outcome("ok_reused_memsource");
                        }
                    }
                    Ok(Err(e)) => rep.violation_x(mt, "encode_fail|memsource_reuse", &format!("{label}: {e}"), c.json(), c.weight()),
                    Err(p) => rep.violation_x(mt, &format!("encode_fail|{}", p.class()), &format!("{label}: {}", p.describe()), c.json(), c.weight()),
                }
            }
        }
    }
    if let Some((l0, f0)) = seen.first() {
        for (l, f) in &seen[1..] {
            if f != f0 {
                rep.violation_conclusive("delivery_or_mode_dependence", &format!("STREAMINFO differs between {l0} and {l}"), case.json(), case.weight());
            }
        }
    }
    // non-trivial: negative samples present and more than one frame or a short frame
    if samples.iter().any(|&s| s < 0) && inp.len() > 0 {
        local.nontrivial.insert(case.id());
    }
}

pub fn cases(thorough: bool) -> Vec<Case> {
    let mut v = Vec::new();
    // sign-heavy atoms: dc_min, alt_maxmin, wrap_ramp, noise_full, impulse_last, silence
    let atoms: &[u8] = if thorough { &[2, 4, 10, 22, 8, 0, 1, 24] } else { &[2, 4, 10, 22] };
    let bss: &[u32] = if thorough { &[32, 33, 64, 65, 192] } else { &[32, 33, 64] };
    for &bps in universe::BPS.iter() {
        for ch in 1..=8u8 {
            for &a in atoms {
                for &bs in bss {
                    for full in 0..=2u8 {
                        for &tail in &[0u32, 1, 15, 17, bs - 1] {
                            v.push(Case {
                                input: Input { ch, bps, rate: 44100, bs, full: full.into(), tail, atoms: [a, (a + 1) % 28, a, a], rel: 0, delivery: 0, seed: 0 },
                                cfg: Cfg::default(),
                            });
                        }
                    }
                }
            }
        }
    }
    // large block size and every sample rate class with a fixed small shape
    for &bps in universe::BPS.iter() {
        for &ch in &[1u8, 2, 8] {
            for &(full, tail) in &[(0u8, 1u32), (1, 0), (1, 4095), (2, 17)] {
                v.push(Case {
                    input: Input { ch, bps, rate: 96000, bs: 4096, full: full.into(), tail, atoms: [22, 4, 10, 2], rel: 0, delivery: 0, seed: 0 },
                    cfg: Cfg::default(),
                });
            }
        }
    }
    // long streams (more blocks than the hashing queue of the multi-thread mode holds), every block different
    for &(ch, bps, bs) in &[(1u8, 8u8, 32u32), (2, 16, 32), (2, 24, 64), (8, 12, 32)] {
        v.push(Case {
            input: Input { ch, bps, rate: 44100, bs, full: 150, tail: 9, atoms: [19, 19, 19, 19], rel: 0, delivery: 0, seed: 0 },
            cfg: Cfg::default(),
        });
    }
    for &rate in universe::RATES.iter() {
        for &bps in universe::BPS.iter() {
            v.push(Case {
                input: Input { ch: 2, bps, rate, bs: 64, full: 1, tail: 3, atoms: [22, 22, 22, 22], rel: 2, delivery: 0, seed: 0 },
                cfg: Cfg::default(),
            });
        }
    }
    v
}

pub fn run(args: &Args, rep: &Arc<Report>) {
    let thorough = args.tier == "thorough";
    let workers: &[u8] = &[1, 2, 3];
    if let Some(p) = &args.replay {
        let case = load_replay_case(p);
        let mut local = Local::default();
        check_case(rep, &case, &mut local, workers);
        rep.merge(local);
        rep.set_rule("replay of a single recorded case");
        return;
    }
    let cs = cases(thorough);
    let n = cs.len();
    let chunk = 16;
    par_for(
        rep,
        (n + chunk - 1) / chunk,
        Duration::from_secs(300),
        |i| cs[i * chunk].json(),
        |i, local| {
            for c in &cs[i * chunk..((i + 1) * chunk).min(n)] {
                local.set_current(c);
                if rep.want_sample() {
                    rep.sample(c.json());
                }
                // quick: all worker counts for the stereo and 8-channel cases, one worker count otherwise
                let w: &[u8] = if c.input.full >= 100 { &[2, 16, 64] } else if thorough || c.input.ch == 2 || c.input.ch == 8 { workers } else { &[2] };
                check_case(rep, c, local, w);
            }
        },
    );
    rep.extra("cases", json!(n));
    rep.set_rule(&format!(
        "dense product: bps{{8,12,16,20,24}} x channels 1..=8 x sign-heavy atoms({}) x block sizes({}) x full blocks 0..=2 x tail{{0,1,15,17,bs-1}} (incl. the empty input), plus block size 4096 shapes and every sample-rate class; each case x 3 deliveries (MemSource with hint, integer source, LE-byte source) x {{ST, frame-level, MT workers 1..3}}; oracle: STREAMINFO (accessors and serialised bytes; the bytes identical through ByteSink, MemSink<u64> and a user sink with the required operations only; each serialisation preceded on its thread by a write of another stream refused at operation 0..13) == source format, delivered sample count, MD5 of the harness's own LE serialisation, and identical across deliveries and modes; non-trivial = non-empty input with negative samples",
        if thorough { 8 } else { 4 },
        if thorough { 5 } else { 3 }
    ));
}
