//! C16 - the stream parser never panics and never accepts an altered frame as different audio.
//!
//! For a corpus of small emitted streams: every single-bit flip of every frame bit, every non-zero
//! XOR mask on every frame byte, every burst of width 2..=8 (both end bits flipped, every middle
//! pattern) at every bit offset, truncation after every byte, every value of the byte (and, at a
//! few points, of the two bytes) at grammar cut points, and a fixed list of pseudo-random inputs.
use crate::atoms::Lcg;
use crate::report::{par_for, Local, Report};
use crate::subject::{self, Mode};
use crate::universe::{self, Case};
use crate::{panicx, Args};
use flacenc::component::{parser, Decode, Stream};
use serde_json::{json, Value};
use std::sync::Arc;
use std::time::Duration;

type NomErr<'a> = nom::error::Error<&'a [u8]>;

#[derive(Clone)]
struct Item {
    name: String,
    case: Case,
    bytes: Vec<u8>,
    /// audio of the unmodified stream as decoded through the crate's own parser: per frame (block size, samples)
    audio: Vec<(usize, Vec<i32>)>,
    frames_start: usize,
}

fn audio_of(s: &Stream) -> Result<Vec<(usize, Vec<i32>)>, panicx::PanicRec> {
    panicx::catch(|| (0..s.frame_count()).map(|i| s.frame(i).map(|f| (f.block_size(), f.decode())).unwrap()).collect())
}

fn corpus(thorough: bool) -> Vec<Item> {
    let b = |i: usize| universe::decode(&universe::base_points()[i]);
    let mut cases: Vec<(String, Case)> = Vec::new();
    let mut add = |name: &str, mut c: Case, f: &dyn Fn(&mut Case)| {
        c.input.bs = 32;
        c.input.full = 1;
        c.input.tail = 5;
        f(&mut c);
        cases.push((name.to_string(), c));
    };
    add("mono8_mixed", b(0), &|_| {});
    add("stereo16_default", b(1), &|_| {});
    add("stereo24_loud", b(2), &|_| {});
    add("stereo16_leftside_only", b(1), &|c| {
        c.cfg.rs = false;
        c.cfg.ms = false;
        c.input.rel = 4;
    });
    add("stereo16_midside_only", b(1), &|c| {
        c.cfg.ls = false;
        c.cfg.rs = false;
        c.input.rel = 4;
    });
    add("stereo24_rightside_only", b(5), &|c| {
        c.cfg.ls = false;
        c.cfg.ms = false;
        c.input.rel = 4;
    });
    add("mono16_lpc_order24_bs64", b(0), &|c| {
        c.input.bps = 16;
        c.input.bs = 64;
        c.input.atoms = [26, 18, 26, 26];
        c.cfg.lpc_order = 24;
        c.cfg.use_fixed = false;
    });
    add("mono16_fixed_only", b(0), &|c| {
        c.input.bps = 16;
        c.input.atoms = [13, 14, 13, 13];
        c.cfg.use_lpc = false;
    });
    add("mono16_constant_and_verbatim", b(0), &|c| {
        c.input.bps = 16;
        c.input.atoms = [1, 22, 1, 1];
    });
    add("three_ch12_rate12345", b(3), &|_| {});
    add("mono8_bs33_explicit_size_code", b(0), &|c| {
        c.input.bs = 33;
    });
    add("stereo16_rate65540", b(1), &|c| {
        c.input.rate = 65540;
    });
    {
        add("eight_ch20", b(4), &|_| {});
        add("stereo16_silence", b(1), &|c| c.input.atoms = [0, 0, 0, 0]);
        add("mono24_alt", b(2), &|c| {
            c.input.ch = 1;
            c.input.atoms = [4, 5, 4, 4];
        });
        add("stereo16_partitioned_bs256", b(1), &|c| {
            c.input.bs = 256;
            c.input.tail = 0;
            c.input.atoms = [24, 24, 24, 24];
        });
        add("mono16_lpc_prec2", b(0), &|c| {
            c.input.bps = 16;
            c.input.atoms = [26, 26, 26, 26];
            c.cfg.precision = 2;
        });
        add("empty_input", b(1), &|c| {
            c.input.full = 0;
            c.input.tail = 0;
        });
        add("stereo16_three_frames", b(1), &|c| c.input.full = 2);
        add("mono16_rate_1", b(0), &|c| {
            c.input.bps = 16;
            c.input.rate = 1;
        });
    }
    if thorough {
        // every single-coordinate deviation of the universe base points that yields a small stream
        let uni = universe::Universe::new(1, false, true);
        let mut k = 0;
        for sh in &uni.shards {
            uni.for_each_in_shard(sh, |p| {
                let mut c = universe::decode(p);
                if c.input.bs <= 64 {
                    c.input.full = c.input.full.min(1);
                    k += 1;
                    cases.push((format!("u1_{k}"), c));
                }
            });
        }
    }
    let mut out = Vec::new();
    for (name, case) in cases {
        // keep the exhaustive mutation sweep affordable
        if name.starts_with("u1_") && case.input.len() * case.input.ch as usize * case.input.bps as usize > 8 * 1200 {
            continue;
        }
        let samples = case.input.samples();
        let Ok((stream, bytes)) = subject::encode_bytes(&case, &samples, Mode::St) else { continue };
        let Ok(audio) = audio_of(&stream) else { continue };
        out.push(Item { name, case, bytes, audio, frames_start: 42 });
    }
    out
}

#[derive(Debug, Clone, Copy, PartialEq, Eq)]
enum Verdict {
    Rejected,
    AcceptedSameAudio,
    /// arbitrary (not frame-altered) input accepted by the parser whose decoding panics: recorded only
    AcceptedDecodePanics,
}

/// Parses `data`; `Err((class, what))` = violation.
fn judge(item: &Item, data: &[u8], frame_mutation: bool) -> Result<Verdict, (String, String)> {
    let r = panicx::catch(|| parser::stream::<NomErr>(data).map(|(_, s)| s).map_err(|_| ()));
    match r {
        Err(p) => Err((p.class(), format!("parser::stream panicked: {}", p.describe()))),
        Ok(Err(())) => Ok(Verdict::Rejected),
        Ok(Ok(s)) => {
            if !frame_mutation {
                // for input that is not an alteration of at most 8 bits inside a frame the statement demands
                // only that the parser does not panic; what decoding such an accepted stream does is recorded
                // by the caller (counter), not judged
                return Ok(if audio_of(&s).is_ok() { Verdict::AcceptedSameAudio } else { Verdict::AcceptedDecodePanics });
            }
            match audio_of(&s) {
                Err(p) => Err((format!("decode_{}", p.class()), format!("the altered stream was accepted and decoding it panicked: {}", p.describe()))),
                Ok(a) => {
                    if a == item.audio {
                        Ok(Verdict::AcceptedSameAudio)
                    } else {
                        Err(("altered_frame_accepted".into(), format!("the altered stream was accepted with different audio ({} frames vs {})", a.len(), item.audio.len())))
                    }
                }
            }
        }
    }
}

fn mutation_json(item: &Item, kind: &str, detail: Value) -> Value {
    json!({"parser_mutation": {"stream": item.name, "case": item.case, "kind": kind, "detail": detail}})
}

fn report(rep: &Report, local: &mut Local, item: &Item, kind: &str, detail: Value, r: Result<Verdict, (String, String)>, weight: u64) {
    local.evals += 1;
    match r {
        Ok(Verdict::Rejected) => local.count("rejected", 1),
        Ok(Verdict::AcceptedSameAudio) => local.count("accepted_with_same_audio", 1),
        Ok(Verdict::AcceptedDecodePanics) => local.count("arbitrary_input_accepted_whose_decode_panics_not_judged", 1),
        Err((class, what)) => {
            local.count("violations", 1);
            rep.violation(&class, &format!("{} / {kind} {detail}: {what}", item.name), mutation_json(item, kind, detail), weight);
        }
    }
}

fn apply_bits(data: &mut [u8], bit_off: usize, mask: u32, width: usize) {
    for k in 0..width {
        if (mask >> (width - 1 - k)) & 1 == 1 {
            let b = bit_off + k;
            if b / 8 < data.len() {
                data[b / 8] ^= 0x80 >> (b % 8);
            }
        }
    }
}

fn sweep_item(rep: &Report, local: &mut Local, item: &Item, part: usize, parts: usize) {
    let n = item.bytes.len();
    let fs = item.frames_start;
    let mut buf = item.bytes.clone();
    // frame bits are split among `parts` work items by byte index
    for byte in (fs..n).filter(|b| b % parts == part) {
        // every non-zero XOR mask on this byte (includes the 8 single-bit flips and all bursts inside the byte)
        for m in 1..=255u8 {
            buf[byte] ^= m;
            let r = judge(item, &buf, true);
            report(rep, local, item, "xor_mask", json!({"byte": byte, "mask": m}), r, byte as u64);
            buf[byte] ^= m;
        }
        // bursts crossing byte borders: width w, both end bits set, every middle pattern, every bit offset in this byte
        for bit in 0..8usize {
            let off = byte * 8 + bit;
            for w in 2..=8usize {
                if bit + w <= 8 {
                    continue; // inside one byte: covered by the XOR masks
                }
                if off + w > n * 8 {
                    continue;
                }
                for mid in 0..(1u32 << (w - 2)) {
                    let mask = (1u32 << (w - 1)) | (mid << 1) | 1;
                    apply_bits(&mut buf, off, mask, w);
                    let r = judge(item, &buf, true);
                    report(rep, local, item, "burst", json!({"bit_offset": off, "width": w, "mask": mask}), r, byte as u64);
                    apply_bits(&mut buf, off, mask, w);
                }
            }
        }
    }
    if part == 0 {
        // truncation after every byte (also inside the metadata)
        for len in 0..n {
            let r = judge(item, &item.bytes[..len], false);
            report(rep, local, item, "truncate", json!({"len": len}), r, len as u64);
        }
        // grammar cut points: every value of the byte at the cut
        let mut cuts: Vec<usize> = vec![0, 3, 4, 5, 7, 8, 12, 18, 21, 25, 41];
        for k in 0..12 {
            cuts.push(fs + k);
        }
        cuts.push(n - 1);
        cuts.push(n - 2);
        cuts.push(n - 3);
        cuts.push((fs + n) / 2);
        for &c in cuts.iter().filter(|&&c| c < n) {
            let frame_level = c >= fs;
            let orig = buf[c];
            for v in 0..=255u8 {
                if v == orig {
                    continue;
                }
                buf[c] = v;
                let r = judge(item, &buf, frame_level);
                report(rep, local, item, "substitute1", json!({"byte": c, "value": v}), r, c as u64);
            }
            buf[c] = orig;
        }
    }
    if part == 2 % parts {
        // checksum-consistent substitutions: every value of each header byte (CRC-8 and CRC-16 recomputed) and of
        // the first bytes of the frame body (CRC-16 recomputed) - content that passes the checksums and reaches
        // the code behind them; only "no panic" is demanded
        if let Ok(facts) = crate::strictflac::parse(&item.bytes) {
            for fr in &facts.frames {
                let hdr_len = fr.header_bits / 8; // includes the CRC-8 byte
                let body_positions: Vec<usize> = (fr.start + hdr_len..(fr.start + hdr_len + 6).min(fr.end - 2)).collect();
                for pos in (fr.start + 1..fr.start + hdr_len - 1).chain(body_positions.into_iter()) {
                    let orig = item.bytes[pos];
                    for v in 0..=255u8 {
                        if v == orig {
                            continue;
                        }
                        let mut d = item.bytes.clone();
                        d[pos] = v;
                        if pos < fr.start + hdr_len - 1 {
                            d[fr.start + hdr_len - 1] = crate::strictflac::crc8(&d[fr.start..fr.start + hdr_len - 1]);
                        }
                        let c16 = crate::strictflac::crc16(&d[fr.start..fr.end - 2]);
                        d[fr.end - 2] = (c16 >> 8) as u8;
                        d[fr.end - 1] = c16 as u8;
                        let r = judge(item, &d, false);
                        report(rep, local, item, "substitute_with_valid_checksums", json!({"byte": pos, "value": v, "bytes": d}), r, pos as u64);
                    }
                }
            }
        }
    }
    if part == 3 % parts {
        // every value of the STREAMINFO sample-width field (5 bits) and channel field (3 bits), with every frame
        // header switched to "sample size: see STREAMINFO" (tag 000) and all checksums recomputed: widths and
        // channel counts the frame parser only learns from the metadata; only "no panic" is demanded
        if let Ok(facts) = crate::strictflac::parse(&item.bytes) {
            for width_field in 0..32u8 {
                for ch_field in 0..8u8 {
                    // the channel field is swept only with the original width and with the extreme widths
                    let orig_ch = (item.bytes[20] >> 1) & 7;
                    if ch_field != orig_ch && !(width_field == 0 || width_field >= 23) {
                        continue;
                    }
                    let mut d = item.bytes.clone();
                    d[20] = (d[20] & 0xF0) | (ch_field << 1) | (width_field >> 4);
                    d[21] = (d[21] & 0x0F) | ((width_field & 0x0F) << 4);
                    for fr in &facts.frames {
                        let hdr_len = fr.header_bits / 8;
                        d[fr.start + 3] &= 0xF1;
                        d[fr.start + hdr_len - 1] = crate::strictflac::crc8(&d[fr.start..fr.start + hdr_len - 1]);
                        let c16 = crate::strictflac::crc16(&d[fr.start..fr.end - 2]);
                        d[fr.end - 2] = (c16 >> 8) as u8;
                        d[fr.end - 1] = c16 as u8;
                    }
                    let r = judge(item, &d, false);
                    report(rep, local, item, "streaminfo_width_and_channels", json!({"width_field": width_field, "channel_field": ch_field, "bytes": d}), r, width_field as u64);
                }
            }
        }
    }
    if part == 1 % parts {
        // every value of two consecutive bytes at four cut points
        for &c in [4usize, fs + 2, fs + 4, fs + 9].iter().filter(|&&c| c + 1 < n) {
            let frame_level = c >= fs;
            let (o0, o1) = (buf[c], buf[c + 1]);
            for v in 0..=65535u32 {
                buf[c] = (v >> 8) as u8;
                buf[c + 1] = v as u8;
                if (buf[c], buf[c + 1]) == (o0, o1) {
                    continue;
                }
                // two-byte substitutions are wider than the 8-bit bursts the statement covers: only "no panic" is demanded
                let r = judge(item, &buf, false);
                let _ = frame_level;
                report(rep, local, item, "substitute2", json!({"byte": c, "value": v}), r, c as u64);
            }
            buf[c] = o0;
            buf[c + 1] = o1;
        }
    }
}

/// Complete code space of the fixed part of the frame header: every value of header bytes 2 and 3 (block-size
/// code, sample-rate code, channel assignment, sample-size code, reserved bit) x a list of first bytes of
/// the coded frame number, with the CRC-8 forged at every header length the format allows (5..=16 bytes), so
/// that whatever length the parser derives from the codes, one variant passes the header checksum and the
/// body is parsed under the altered header. Only "no panic" is judged (the alteration exceeds 8 bits).
fn header_space(rep: &Arc<Report>, items: &[Item], thorough: bool) {
    let numbers: Vec<u8> = if thorough { (0..=255u8).collect() } else { vec![0x00, 0x01, 0x7F, 0x80, 0xC2, 0xE0, 0xF0, 0xF8, 0xFC, 0xFE, 0xFF] };
    let use_items: Vec<&Item> = items.iter().filter(|i| i.bytes.len() > i.frames_start + 20).take(if thorough { 6 } else { 3 }).collect();
    let ni = use_items.len();
    par_for(
        rep,
        ni * 256,
        Duration::from_secs(900),
        |i| json!({"header_space": use_items[i / 256].name, "byte2": i % 256}),
        |i, local| {
            let item = use_items[i / 256];
            let fs = item.frames_start;
            let b2 = (i % 256) as u8;
            let mut data = item.bytes.clone();
            let mut panics = 0u64;
            for b3 in 0..=255u8 {
                for &b4 in &numbers {
                    data.copy_from_slice(&item.bytes);
                    data[fs + 2] = b2;
                    data[fs + 3] = b3;
                    data[fs + 4] = b4;
                    for hl in 5..=16usize {
                        if fs + hl > data.len() {
                            break;
                        }
                        let keep = data[fs + hl - 1];
                        data[fs + hl - 1] = crate::strictflac::crc8(&data[fs..fs + hl - 1]);
                        local.evals += 1;
                        if let Err((class, what)) = judge(item, &data, false) {
                            panics += 1;
                            rep.violation(&class, &format!("{} / header code space byte2={b2:#04x} byte3={b3:#04x} number={b4:#04x} crc8@{hl}: {what}", item.name), mutation_json(item, "raw", json!({"bytes": data})), (b2 as u64) << 8 | b3 as u64);
                        }
                        data[fs + hl - 1] = keep;
                    }
                }
            }
            local.count("header_space_inputs", 256 * numbers.len() as u64 * 12);
            if panics == 0 {
                local.nontrivial.insert(universe::fnv(&format!("hs{}#{b2}", item.name)));
            }
        },
    );
    rep.extra("header_space", json!({"streams": ni, "byte2_x_byte3": 65536, "number_bytes": numbers.len(), "crc8_positions": 12}));
}

/// EVERY 3-byte input (2^24) to the subframe parser, followed by a fixed tail, for block sizes and sample
/// widths the stream parser can hand to it (the widths of STREAMINFO and the side-channel width above them).
fn subframe_space(rep: &Arc<Report>, thorough: bool) {
    let params: Vec<(usize, usize)> = if thorough {
        vec![(1, 8), (2, 8), (3, 8), (16, 8), (1, 9), (2, 12), (1, 16), (2, 17), (16, 16), (1, 24), (1, 25), (2, 25), (5, 20), (16, 25), (33, 13)]
    } else {
        vec![(1, 8), (2, 8), (16, 8), (1, 17), (1, 25), (16, 25)]
    };
    let tails: [u8; 2] = [0x00, 0xFF];
    let np = params.len();
    par_for(
        rep,
        np * 2 * 256,
        Duration::from_secs(900),
        |i| json!({"subframe_space": params[i / 512], "tail": tails[(i / 256) % 2], "byte0": i % 256}),
        |i, local| {
            let (bs, bps) = params[i / 512];
            let tail = tails[(i / 256) % 2];
            let b0 = (i % 256) as u8;
            let mut buf = [tail; 12];
            buf[0] = b0;
            let mut accepted = 0u64;
            for b1 in 0..=255u8 {
                buf[1] = b1;
                for b2 in 0..=255u8 {
                    buf[2] = b2;
                    let r = panicx::catch(|| {
                        let mut p = parser::subframe::<nom::error::Error<(&[u8], usize)>>(bs, bps);
                        p((&buf[..], 0usize)).is_ok()
                    });
                    match r {
                        Ok(ok) => accepted += u64::from(ok),
                        Err(pn) => rep.violation(&pn.class(), &format!("parser::subframe({bs}, {bps}) panicked on {:02x?}: {}", &buf[..], pn.describe()), json!({"parser_mutation": {"kind": "subframe_input", "detail": {"bs": bs, "bps": bps, "bytes": buf.to_vec()}}}), 1),
                    }
                }
            }
            local.evals += 65536;
            local.count("subframe_inputs", 65536);
            local.count("subframe_inputs_accepted", accepted);
            local.nontrivial.insert(universe::fnv(&format!("sf{bs}/{bps}/{tail}/{b0}")));
        },
    );
    rep.extra("subframe_space", json!({"params_block_size_x_width": params, "tails": tails, "inputs_per_param": 1u64 << 25}));
}

fn random_inputs(rep: &Arc<Report>, items: &[Item], count: usize) {
    let chunk = 250;
    par_for(
        rep,
        (count + chunk - 1) / chunk,
        Duration::from_secs(300),
        |i| json!({"random_input_chunk": i}),
        |i, local| {
            for k in i * chunk..((i + 1) * chunk).min(count) {
                let mut rng = Lcg::new(0xF1AC_0000 + k as u64);
                let len = (rng.next() % 200) as usize;
                let mut data: Vec<u8> = (0..len).map(|_| rng.next() as u8).collect();
                let item = &items[k % items.len()];
                match k % 4 {
                    0 => {}
                    // valid marker + STREAMINFO, then garbage
                    1 => {
                        let mut d = item.bytes[..item.frames_start.min(item.bytes.len())].to_vec();
                        d.extend_from_slice(&data);
                        data = d;
                    }
                    // a valid frame header start followed by garbage
                    2 => {
                        let end = (item.frames_start + 6).min(item.bytes.len());
                        let mut d = item.bytes[..end].to_vec();
                        d.extend_from_slice(&data);
                        data = d;
                    }
                    // garbage spliced into the middle of a valid stream
                    _ => {
                        let at = item.frames_start + (rng.next() as usize % (item.bytes.len() - item.frames_start).max(1));
                        let mut d = item.bytes[..at.min(item.bytes.len())].to_vec();
                        d.extend_from_slice(&data);
                        d.extend_from_slice(&item.bytes[at.min(item.bytes.len())..]);
                        data = d;
                    }
                }
                let r = judge(item, &data, false);
                report(rep, local, item, "random", json!({"index": k, "bytes": data}), r, data.len() as u64);
            }
        },
    );
}

pub fn run(args: &Args, rep: &Arc<Report>) {
    let thorough = args.tier == "thorough";
    let items = corpus(thorough);
    if let Some(p) = &args.replay {
        let s = std::fs::read_to_string(p).unwrap_or_default();
        let v: Value = serde_json::from_str(&s).unwrap_or(Value::Null);
        let c = v.get("case").cloned().unwrap_or(v);
        let m = &c["parser_mutation"];
        if m["kind"].as_str() == Some("subframe_input") {
            let d = &m["detail"];
            let (bs, bps) = (d["bs"].as_u64().unwrap() as usize, d["bps"].as_u64().unwrap() as usize);
            let buf: Vec<u8> = d["bytes"].as_array().unwrap().iter().map(|x| x.as_u64().unwrap() as u8).collect();
            if let Err(pn) = panicx::catch(|| {
                let mut p = parser::subframe::<nom::error::Error<(&[u8], usize)>>(bs, bps);
                p((&buf[..], 0usize)).is_ok()
            }) {
                rep.violation(&pn.class(), &format!("parser::subframe({bs}, {bps}) panicked: {}", pn.describe()), c.clone(), 1);
            }
            rep.set_rule("replay of one recorded subframe input");
            return;
        }
        let case: Case = serde_json::from_value(m["case"].clone()).expect("replay file holds no parser mutation");
        let samples = case.input.samples();
        let (stream, bytes) = subject::encode_bytes(&case, &samples, Mode::St).ok().expect("cannot re-encode the corpus stream");
        let item = Item { name: m["stream"].as_str().unwrap_or("replay").to_string(), case, bytes, audio: audio_of(&stream).ok().expect("decode"), frames_start: 42 };
        let d = &m["detail"];
        let mut data = item.bytes.clone();
        let mut frame_level = true;
        match m["kind"].as_str().unwrap_or("") {
            "xor_mask" => data[d["byte"].as_u64().unwrap() as usize] ^= d["mask"].as_u64().unwrap() as u8,
            "burst" => apply_bits(&mut data, d["bit_offset"].as_u64().unwrap() as usize, d["mask"].as_u64().unwrap() as u32, d["width"].as_u64().unwrap() as usize),
            "truncate" => {
                data.truncate(d["len"].as_u64().unwrap() as usize);
                frame_level = false;
            }
            "substitute1" => {
                let b = d["byte"].as_u64().unwrap() as usize;
                data[b] = d["value"].as_u64().unwrap() as u8;
                frame_level = b >= 42;
            }
            "substitute2" => {
                let b = d["byte"].as_u64().unwrap() as usize;
                let v = d["value"].as_u64().unwrap();
                data[b] = (v >> 8) as u8;
                data[b + 1] = v as u8;
                frame_level = false;
            }
            _ => {
                data = d["bytes"].as_array().map(|a| a.iter().map(|x| x.as_u64().unwrap_or(0) as u8).collect()).unwrap_or_default();
                frame_level = false;
            }
        }
        let mut local = Local::default();
        let r = judge(&item, &data, frame_level);
        report(rep, &mut local, &item, m["kind"].as_str().unwrap_or("?"), d.clone(), r, 0);
        rep.merge(local);
        rep.set_rule("replay of one recorded mutation");
        return;
    }
    let parts = 16usize;
    let ni = items.len();
    par_for(
        rep,
        ni * parts,
        Duration::from_secs(900),
        |i| json!({"stream": items[i / parts].name, "part": i % parts}),
        |i, local| {
            let item = &items[i / parts];
            sweep_item(rep, local, item, i % parts, parts);
            local.nontrivial.insert(universe::fnv(&format!("{}#{}", item.name, i % parts)));
        },
    );
    random_inputs(rep, &items, if thorough { 10_000 } else { 2_000 });
    header_space(rep, &items, thorough);
    subframe_space(rep, thorough);
    for it in items.iter().take(3) {
        rep.sample(json!({"corpus_stream": it.name, "bytes": it.bytes.len(), "case": it.case}));
    }
    rep.extra("corpus", json!(items.iter().map(|i| json!({"name": i.name, "bytes": i.bytes.len()})).collect::<Vec<_>>()));
    rep.set_rule(&format!(
        "corpus of {ni} small emitted streams (all subframe types, all stereo modes, widths 8/12/16/24, explicit block-size and sample-rate codes); for each: every non-zero XOR mask on every frame byte (includes every single-bit flip and every burst inside a byte), every burst of width 2..=8 with both end bits flipped and every middle pattern at every bit offset crossing a byte border, truncation after every byte, every value of the byte at ~27 grammar cut points, every value of two bytes at 4 cut points, every value of each frame-header byte and of the first 6 body bytes of every frame with CRC-8 / CRC-16 recomputed (content that passes the checksums); the COMPLETE code space of header bytes 2-3 (block-size, sample-rate, channel, sample-size codes, reserved bit) x first number bytes with the CRC-8 forged at every admissible header length; EVERY 3-byte input (2^24) x 2 tails to parser::subframe for block sizes x widths the stream parser can pass; plus {} pseudo-random inputs (a fixed list: raw, after a valid STREAMINFO, after a valid header start, spliced into a valid stream); oracle: parser::stream never panics; a frame-level alteration of at most 8 bits is rejected or decodes to identical audio; decoding an accepted stream never panics; non-trivial = a (stream, byte class) work item that completed",
        if thorough { 10_000 } else { 2_000 }
    ));
}
