//! C09 - no frame is larger than its verbatim encoding (plus two bytes per channel).
use super::ustream::{self, drive};
use crate::report::{Local, Report};
use crate::strictflac::{self, SubKind};
use crate::subject::{self, EncFail, Mode};
use crate::universe::Case;
use crate::Args;
use flacenc::component::BitRepr;
use std::sync::Arc;

pub fn verbatim_bound_bytes(header_bits: usize, channels: usize, bps: usize, n: usize) -> usize {
    (header_bits + channels * (8 + bps * n) + 7) / 8 + 2 + 2 * channels
}

pub fn check_case(rep: &Report, case: &Case, labels: &[String], local: &mut Local, thorough: bool) {
    let samples = case.input.samples();
    local.evals += 1;
    for l in labels {
        local.dim(l);
    }
    let (ch, bps) = (case.input.ch as usize, case.input.bps as usize);
    for mode in [Mode::St, Mode::Mt] {
        if mode == Mode::Mt && !subject::mt_in_scope(thorough, labels) {
            continue;
        }
        let stream = match subject::encode(case, &samples, mode) {
            Ok(s) => s,
            Err(e) => {
                local.outcome(&format!("{}:fail:{}", mode.name(), e.class()));
                rep.violation(
                    &format!("encode_fail|{}", e.class()),
                    &format!("{} encode failed: {}", mode.name(), e.describe()),
                    case.json(),
                    case.weight(),
                );
                continue;
            }
        };
        // frame sizes: byte spans measured by the reference parser when the stream is serialised,
        // otherwise (giant stream, output guard) the sizes the stream reports
        let mut sizes: Vec<(usize, usize, usize)> = Vec::new(); // (bytes, header_bits, block size)
        let mut nonverbatim = false;
        match subject::stream_bytes(&stream) {
            Ok(bytes) => match strictflac::parse(&bytes) {
                Ok(f) => {
                    for fr in &f.frames {
                        sizes.push((fr.end - fr.start, fr.header_bits, fr.block_size));
                        if fr.subframes.iter().any(|s| s.kind != SubKind::Verbatim) {
                            nonverbatim = true;
                        }
                    }
                }
                Err(e) => {
                    rep.violation(
                        &format!("strict_reject|{}", strictflac::clause(&e)),
                        &format!("{}: reference parser cannot follow the stream: {e}", mode.name()),
                        case.json(),
                        case.weight(),
                    );
                    continue;
                }
            },
            Err(EncFail::TooBig(_)) => {
                local.count("giant_streams_sized_by_count_bits", 1);
                for i in 0..stream.frame_count() {
                    let fr = stream.frame(i).unwrap();
                    sizes.push((fr.count_bits() / 8, fr.header().count_bits(), fr.block_size()));
                }
                nonverbatim = true;
            }
            Err(e) => {
                rep.violation(&format!("write_fail|{}", e.class()), &e.describe(), case.json(), case.weight());
                continue;
            }
        }
        let mut ok = true;
        for (i, (bytes, hbits, n)) in sizes.iter().enumerate() {
            let bound = verbatim_bound_bytes(*hbits, ch, bps, *n);
            if *bytes > bound {
                ok = false;
                rep.violation(
                    "frame_larger_than_verbatim",
                    &format!(
                        "{}: frame {i} ({n} samples x {ch} ch x {bps} bits) takes {bytes} bytes; verbatim bound is {bound} bytes",
                        mode.name()
                    ),
                    case.json(),
                    case.weight(),
                );
                break;
            }
        }
        if nonverbatim {
            local.nontrivial.insert(case.id());
        }
        local.outcome(&format!("{}:{}", mode.name(), if ok { "ok" } else { "violation" }));
    }
}

/// Amplitude sweeps: uniform noise (optionally after 128 silent samples) whose amplitude runs through
/// the region where predicted subframes are near break-even with verbatim.
fn amplitude_sweep(thorough: bool) -> ustream::Group {
    let mut cases = Vec::new();
    let base = crate::universe::decode(&crate::universe::base_points()[0]);
    for &(bps, bs) in &[(16u8, 4096u32), (16, 256), (12, 1024), (20, 576), (24, 4096)] {
        let max = (1u64 << (bps - 1)) - 1;
        let steps = if thorough { 400 } else { 100 };
        for k in 0..steps {
            // upper 40 % of the amplitude range, evenly
            let amp = max * 6 / 10 + (max * 4 / 10) * k / steps;
            for atom in [31u8, 32] {
                for lpc_order in [10u8, 24] {
                    let mut c = base.clone();
                    c.input.bps = bps;
                    c.input.bs = bs;
                    c.input.full = 1;
                    c.input.tail = 0;
                    c.input.atoms = [atom; 4];
                    c.input.seed = amp;
                    c.cfg.lpc_order = lpc_order;
                    cases.push(c);
                }
            }
        }
    }
    ustream::Group { name: "GA", describe: "GA: amplitude sweep (upper 40 % of the range in 100/400 steps) of uniform noise, with and without 128 leading silent samples, x (bps, block size) {(16,4096),(16,256),(12,1024),(20,576),(24,4096)} x LPC order {10,24}, mono".into(), cases }
}

pub fn run(args: &Args, rep: &Arc<Report>) {
    let thorough = args.tier == "thorough";
    let groups = if args.replay.is_some() {
        vec![]
    } else if thorough {
        vec![ustream::g9(&[64, 192, 576, 4096]), amplitude_sweep(true), ustream::gn()]
    } else {
        vec![ustream::g9(&[64, 192, 576]), amplitude_sweep(false), ustream::gn()]
    };
    let d = if thorough { 3 } else { 2 };
    drive(args, rep, d, true, groups, |case, labels, local| {
        if rep.want_sample() {
            rep.sample(case.json());
        }
        check_case(rep, case, labels, local, thorough);
    });
    rep.add_rule("oracle: every frame's byte length <= ceil((header bits + sum_ch(8 + bps*n))/8) + 2 + 2*channels; non-trivial = at least one non-verbatim subframe chosen");
}
