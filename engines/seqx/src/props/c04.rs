//! C04 - STREAMINFO block-size and frame-size bounds; complete over input lengths.
use super::ustream::load_replay_case;
use crate::report::{par_for, Local, Report};
use crate::strictflac;
use crate::subject::{self, Mode};
use crate::universe::{Case, Cfg, Input};
use crate::Args;
use serde_json::json;
use std::sync::Arc;
use std::time::Duration;

fn mk(bs: u32, len: usize, atom: u8, ch: u8, bps: u8) -> Case {
    let full = (len / bs as usize) as u32;
    let tail = (len % bs as usize) as u32;
    Case {
        input: Input {
            ch,
            bps,
            // every class of header rate code: fixed code, tens of Hz (16 bits), unspecified, kHz (8 bits), Hz (16 bits)
            rate: [44100u32, 12340, 65540, 95999, 1000, 12345, 65535][len % 7],
            bs,
            full,
            tail,
            atoms: [atom, atom, atom, atom],
            rel: 0,
            // MemSource with hint, integer source without, byte source without, integer sources whose
            // hint is the length rounded up / down to whole blocks
            delivery: (len % 6) as u8,
            seed: 0,
        },
        // every other length with a configured block size that differs from the argument
        cfg: Cfg { cfg_bs_mismatch: (len / 6) % 2 == 1, ..Cfg::default() },
    }
}

pub fn check_case(rep: &Report, case: &Case, local: &mut Local, with_mt: bool) {
    let samples = case.input.samples();
    let bs = case.input.bs as usize;
    local.evals += 1;
    local.dim(&format!("bs={bs}"));
    for mode in [Mode::St, Mode::Mt, Mode::Frame] {
        if mode == Mode::Mt && !with_mt {
            continue;
        }
        let (_, bytes) = match subject::encode_bytes(case, &samples, mode) {
            Ok(x) => x,
            Err(subject::EncFail::TooBig(_)) => {
                local.outcome(&format!("{}:skipped_giant_stream", mode.name()));
                local.count("giant_streams_not_serialised", 1);
                continue;
            }
            Err(e) => {
                local.outcome(&format!("{}:fail:{}", mode.name(), e.class()));
                rep.violation_x(
                    mode == Mode::Mt,
                    &format!("encode_fail|{}", e.class()),
                    &format!("{} encode failed: {}", mode.name(), e.describe()),
                    case.json(),
                    case.weight(),
                );
                continue;
            }
        };
        let mut ok = true;
        match strictflac::parse(&bytes) {
            Err(e) => {
                ok = false;
                rep.violation_x(
                    mode == Mode::Mt,
                    &format!("strict_reject|{}", strictflac::clause(&e)),
                    &format!("{}: reference decoder cannot follow the stream: {e}", mode.name()),
                    case.json(),
                    case.weight(),
                );
            }
            Ok(f) => {
                let n = f.frames.len();
                if n > 0 {
                    let mut fail = |class: &str, what: String| {
                        ok = false;
                        rep.violation_x(mode == Mode::Mt, class, &format!("{}: {what}", mode.name()), case.json(), case.weight());
                    };
                    if f.info.max_bs as usize != bs {
                        fail("max_block_size", format!("STREAMINFO max block size {} != requested {bs}", f.info.max_bs));
                    }
                    if f.info.min_bs < 16 {
                        fail("min_block_size_below_16", format!("STREAMINFO min block size {} is below 16 (input length {})", f.info.min_bs, case.input.len()));
                    }
                    let min_nonfinal = f.frames[..n - 1].iter().map(|x| x.block_size).min();
                    if let Some(m) = min_nonfinal {
                        if f.info.min_bs as usize > m {
                            fail("min_block_size_above_frames", format!("STREAMINFO min block size {} exceeds a non-final frame of {m}", f.info.min_bs));
                        }
                    }
                    if f.info.min_bs > f.info.max_bs {
                        fail("min_above_max_block_size", format!("min block size {} > max block size {}", f.info.min_bs, f.info.max_bs));
                    }
                    let sizes: Vec<usize> = f.frames.iter().map(|x| x.end - x.start).collect();
                    let (mn, mx) = (*sizes.iter().min().unwrap(), *sizes.iter().max().unwrap());
                    if f.info.min_fs as usize != mn {
                        fail("min_frame_size", format!("STREAMINFO min frame size {} != smallest frame {mn}", f.info.min_fs));
                    }
                    if f.info.max_fs as usize != mx {
                        fail("max_frame_size", format!("STREAMINFO max frame size {} != largest frame {mx}", f.info.max_fs));
                    }
                    if case.input.tail > 0 && n >= 1 {
                        local.nontrivial.insert(case.id());
                    }
                }
            }
        }
        match subject::claxon_decode(&bytes) {
            Err(e) => {
                ok = false;
                let reason: String = e.chars().filter(|c| !c.is_ascii_digit()).take(60).collect();
                rep.violation_x(
                    mode == Mode::Mt,
                    &format!("claxon_reject|{reason}"),
                    &format!("{}: strict decoder rejects the stream (input length {}): {e}", mode.name(), case.input.len()),
                    case.json(),
                    case.weight(),
                );
            }
            Ok(c) => {
                if c.samples != samples {
                    ok = false;
                    rep.violation_x(mode == Mode::Mt, "claxon_samples", &format!("{}: claxon decodes different audio", mode.name()), case.json(), case.weight());
                }
            }
        }
        local.outcome(&format!("{}:{}", mode.name(), if ok { "ok" } else { "violation" }));
    }
}

pub fn run(args: &Args, rep: &Arc<Report>) {
    if let Some(p) = &args.replay {
        let case = load_replay_case(p);
        let mut local = Local::default();
        check_case(rep, &case, &mut local, true);
        rep.merge(local);
        rep.set_rule("replay of a single recorded case");
        return;
    }
    let thorough = args.tier == "thorough";
    let mut cases: Vec<Case> = Vec::new();
    // small block sizes: every length 0..=3*bs, full content/channel/width product
    for &bs in &[32u32, 33, 64, 65, 192, 255, 256, 257] {
        for len in 0..=3 * bs as usize {
            for &atom in &[0u8, 19, 22] {
                for &ch in &[1u8, 2] {
                    for &bps in &[8u8, 16, 24] {
                        cases.push(mk(bs, len, atom, ch, bps));
                    }
                }
            }
        }
    }
    // bs = 576: every residue with F in {0,1}
    for f in 0..2usize {
        for r in 0..576usize {
            let combos: &[(u8, u8, u8)] = if thorough {
                &[(0, 1, 8), (19, 1, 16), (22, 2, 24), (19, 2, 16), (22, 1, 24), (0, 2, 16)]
            } else {
                &[(19, 1, 16), (22, 2, 24)]
            };
            for &(atom, ch, bps) in combos {
                cases.push(mk(576, f * 576 + r, atom, ch, bps));
            }
        }
    }
    // bs = 4096: every residue; cheap content in the quick tier, F in {0,1} and noisy content in thorough
    for r in 0..4096usize {
        cases.push(mk(4096, r, 1, 1, 16));
        if thorough {
            cases.push(mk(4096, 4096 + r, 1, 2, 24));
            cases.push(mk(4096, r, 19, 1, 16));
            cases.push(mk(4096, 4096 + r, 22, 2, 24));
        }
    }
    // bs = 32767: constant content only (thorough: every residue; quick: every residue below 2048 and above 30720)
    for r in 0..32767usize {
        if thorough || r < 2048 || r > 30720 {
            cases.push(mk(32767, r, 1, 1, 16));
            if thorough {
                cases.push(mk(32767, 32767 + r, 2, 2, 8));
            }
        }
    }
    // many frames: the coded frame number grows by a byte at 128, 2048, 65536 frames, which changes frame sizes
    for &nf in if thorough { &[127usize, 129, 1023, 1025, 1300, 2047, 2049, 3000, 4097, 65535, 65537, 70000][..] } else { &[129usize, 1300, 2049, 4100][..] } {
        cases.push(mk(32, nf * 32 + 5, 1, 1, 16));
        cases.push(mk(32, nf * 32, 3, 2, 8));
    }
    // frames of 64 KiB and more (the frame-size fields hold 24 bits)
    for &(bs, ch, bps, len) in &[(16384u32, 2u8, 16u8, 16384usize * 2 + 9), (4096, 8, 24, 4096 * 2 + 100), (32767, 2, 24, 32767 + 5), (32767, 8, 24, 32767)] {
        let mut c = mk(bs, len, 22, ch, bps);
        c.input.atoms = [22, 0, 22, 22];
        cases.push(c);
    }
    rep.set_rule(
        "frames of 64 KiB to 786 KiB (full-scale noise; 16384 x 2 x 16, 4096 x 8 x 24, 32767 x 2 x 24, 32767 x 8 x 24); deliveries: MemSource, integer / byte source without a length hint, integer sources with a hint rounded up / down to whole blocks; streams of 129 / 1300 / 2049 / 4100 (thorough: up to 70000) constant frames of 32 samples (frame-number length boundaries); complete over input length: bs in {32,33,64,65,192,255,256,257} x every length 0..=3*bs x content{silence,1-LSB noise,full-scale noise} x ch{1,2} x bps{8,16,24}; bs 576: every residue x F{0,1}; bs 4096: every residue (thorough: F{0,1}, noisy content); bs 32767: residues with constant content (thorough: all). Each case encoded ST, MT and frame-level. Non-trivial = stream ends in a short final block.",
    );
    let n = cases.len();
    let chunk = 32;
    par_for(
        rep,
        (n + chunk - 1) / chunk,
        Duration::from_secs(300),
        |i| cases[i * chunk].json(),
        |i, local| {
            for c in &cases[i * chunk..((i + 1) * chunk).min(n)] {
                local.set_current(c);
                if rep.want_sample() {
                    rep.sample(c.json());
                }
                // MT (thread creation dominates) for one content/width combination per length
                let with_mt = thorough || (c.input.bps == 16 && c.input.ch == 2 && c.input.atoms[0] == 19) || c.input.bs >= 576;
                check_case(rep, c, local, with_mt);
            }
        },
    );
    rep.extra("cases", json!(n));
}
