//! C18 - public component constructors are total and imply serialisability.
//!
//! Every public constructor over grids of boundary / inconsistent arguments (all combinations of at
//! most two deviating arguments from a valid call). Oracle: the call returns `Err`, or `Ok(c)` with
//! `c.verify()` ok, `c.write` ok into three sinks with exactly `count_bits()` bits, and the matching
//! parser returning a component that re-serialises to the same bits; nothing panics.
use crate::bitmodel::CountingSink;
use crate::report::{par_for, Local, Report};
use crate::{panicx, Args};
use flacenc::bitsink::{ByteSink, MemSink};
use flacenc::component::{
    parser, BitRepr, ChannelAssignment, Constant, FixedLpc, Frame, FrameHeader, FrameOffset, Lpc, MetadataBlockData, QuantizedParameters, Residual, Stream, StreamInfo, SubFrame, Verbatim,
};
use flacenc::error::Verify;
use serde::{Deserialize, Serialize};
use serde_json::{json, Value};
use std::sync::Arc;
use std::time::Duration;

const BIG: usize = 1usize << 32;
const MAX_MATERIALISE: usize = 1 << 28;

#[derive(Clone, Debug, Serialize, Deserialize, PartialEq)]
pub struct ResArgs {
    pub po: usize,
    pub bs: usize,
    pub warmup: usize,
    /// number of Rice parameters (usize::MAX = the correct 2^po)
    pub nparams: usize,
    pub p: u8,
    /// lengths of the quotient / remainder vectors (usize::MAX = block size)
    pub qlen: usize,
    pub rlen: usize,
    /// 0 = remainders in range, 1 = one remainder = 2^p, 2 = one remainder u32::MAX
    pub rbad: u8,
    /// 0 = zero in warm-up positions, 1 = non-zero quotient there, 2 = non-zero remainder there
    pub wbad: u8,
    /// quotient value of the last sample
    pub qlast: u32,
}

#[derive(Clone, Debug, Serialize, Deserialize, PartialEq)]
pub enum Ctor {
    Residual(ResArgs),
    QuantizedParameters { order: usize, ncoefs: usize, shift: i8, precision: usize, coef: i16 },
    Constant { bs: usize, dc: i32, bps: usize },
    Verbatim { len: usize, value: i32, bps: usize },
    FixedLpc { warm_up: usize, res_warmup: usize, bs: usize, bps: usize, value: i32 },
    Lpc { warm_up: usize, order: usize, res_warmup: usize, bs: usize, bps: usize, precision: usize, shift: i8 },
    /// offset_kind: 0 = Frame(n), 1 = StartSample(n); assignment: 0..=255 = Independent(n), 256/257/258 = Left/Right/Mid-side
    FrameHeader { bs: usize, assignment: usize, bps: usize, rate: usize, offset_kind: u8, n: u64 },
    /// Frame::new with `nsub` subframes of block size `sub_bs` / width `sub_bps` under a header of (bs, channels ch, bps)
    Frame { bs: usize, ch: u8, bps: usize, nsub: usize, sub_bs: usize, sub_bps: usize, side: bool },
    StreamInfo { rate: usize, ch: usize, bps: usize, min_bs: usize, max_bs: usize, min_fs: usize, max_fs: usize, total: usize },
    StreamInfoBare { rate: usize, ch: usize, bps: usize },
    MetadataUnknown { tag: u8, len: usize },
    /// Two constructed stereo frames with channel assignments `a`, `b` (0 = independent, 1/2/3 = left/right/mid-side;
    /// the side channel one bit wider, filled with the extremes of its width) parsed one after the other by ONE
    /// parser value, and a stream of three such frames (a, b, a) parsed by `parser::stream`
    FrameSeq { a: u8, b: u8, bps: usize, bs: usize },
}

fn good_res() -> ResArgs {
    ResArgs { po: 2, bs: 64, warmup: 2, nparams: usize::MAX, p: 4, qlen: usize::MAX, rlen: usize::MAX, rbad: 0, wbad: 0, qlast: 3 }
}

fn build_residual(a: &ResArgs) -> Result<Residual, String> {
    let nparams = if a.nparams == usize::MAX { 1usize.checked_shl(a.po as u32).unwrap_or(0).min(1 << 16) } else { a.nparams.min(1 << 16) };
    let params = vec![a.p; nparams];
    let qlen = if a.qlen == usize::MAX { a.bs } else { a.qlen }.min(1 << 17);
    let rlen = if a.rlen == usize::MAX { a.bs } else { a.rlen }.min(1 << 17);
    let mut q = vec![1u32; qlen];
    let mask = if a.p >= 32 { u32::MAX } else { (1u32 << a.p) - 1 };
    let mut r: Vec<u32> = (0..rlen).map(|t| (t as u32).wrapping_mul(2654435761) & mask).collect();
    for t in 0..a.warmup.min(qlen) {
        q[t] = 0;
    }
    for t in 0..a.warmup.min(rlen) {
        r[t] = 0;
    }
    if a.wbad == 1 && !q.is_empty() && a.warmup > 0 {
        q[0] = 5;
    }
    if a.wbad == 2 && !r.is_empty() && a.warmup > 0 {
        r[0] = 1;
    }
    if let Some(x) = q.last_mut() {
        *x = a.qlast;
    }
    match a.rbad {
        1 => {
            if let Some(x) = r.last_mut() {
                *x = mask.wrapping_add(1);
            }
        }
        2 => {
            if let Some(x) = r.last_mut() {
                *x = u32::MAX;
            }
        }
        _ => {}
    }
    Residual::new(a.po, a.bs, a.warmup, &params, &q, &r).map_err(|e| format!("{e:?}"))
}

fn assignment_of(a: usize) -> ChannelAssignment {
    match a {
        256 => ChannelAssignment::LeftSide,
        257 => ChannelAssignment::RightSide,
        258 => ChannelAssignment::MidSide,
        n => ChannelAssignment::Independent(n as u8),
    }
}

#[derive(Default)]
struct Post {
    /// (class suffix, description) of every broken post-condition
    problems: Vec<(String, String)>,
}

/// Post-conditions shared by all components: verify, count, write x3, (parse back by the caller).
fn post_common<C: BitRepr + Verify>(c: &C, post: &mut Post) -> Option<(Vec<u8>, usize)> {
    match panicx::catch(|| c.verify()) {
        Ok(Ok(())) => {}
        Ok(Err(e)) => post.problems.push(("constructed_fails_verify".into(), format!("the constructor returned Ok but verify() fails: {e:?}"))),
        Err(p) => {
            post.problems.push((format!("verify_{}", p.class()), format!("verify() panicked: {}", p.describe())));
            return None;
        }
    }
    let count = match panicx::catch(|| c.count_bits()) {
        Ok(n) => n,
        Err(p) => {
            post.problems.push((format!("count_bits_{}", p.class()), format!("count_bits() panicked: {}", p.describe())));
            return None;
        }
    };
    // a write that the sink refuses comes first: what it leaves in the thread's scratch buffers must
    // not show in the writes that are judged below
    if let Err(p) = panicx::catch(|| {
        let mut bad = crate::bitmodel::FailingSink::new(0, crate::bitmodel::Flavour::Full);
        let _ = c.write(&mut bad);
    }) {
        post.problems.push((format!("write_{}", p.class()), format!("write() into a refusing sink panicked: {}", p.describe())));
        return None;
    }
    match panicx::catch(|| {
        let mut s = CountingSink::default();
        c.write(&mut s).map(|()| s.bits).map_err(|e| format!("{e:?}"))
    }) {
        Ok(Ok(b)) => {
            if b != count as u64 {
                post.problems.push(("count_mismatch".into(), format!("count_bits() = {count}, a counting sink received {b} bits")));
            }
        }
        Ok(Err(e)) => {
            post.problems.push(("constructed_not_writable".into(), format!("the constructor returned Ok but write() fails: {e}")));
            return None;
        }
        Err(p) => {
            post.problems.push((format!("write_{}", p.class()), format!("write() panicked: {}", p.describe())));
            return None;
        }
    }
    if count > MAX_MATERIALISE {
        return None;
    }
    let bytes = match panicx::catch(|| {
        let mut s = ByteSink::new();
        c.write(&mut s).map(|()| (s.len(), s.into_inner())).map_err(|e| format!("{e:?}"))
    }) {
        Ok(Ok((n, b))) => {
            if n != count {
                post.problems.push(("count_mismatch".into(), format!("count_bits() = {count}, MemSink<u8> received {n} bits")));
            }
            b
        }
        Ok(Err(e)) => {
            post.problems.push(("constructed_not_writable".into(), format!("write() into MemSink<u8> fails: {e}")));
            return None;
        }
        Err(p) => {
            post.problems.push((format!("write_{}", p.class()), format!("write() into MemSink<u8> panicked: {}", p.describe())));
            return None;
        }
    };
    match panicx::catch(|| {
        let mut s = MemSink::<u64>::new();
        c.write(&mut s).map(|()| {
            let mut out = vec![0u8; (s.len() + 7) / 8];
            s.write_to_byte_slice(&mut out);
            (s.len(), out)
        }).map_err(|e| format!("{e:?}"))
    }) {
        Ok(Ok((n, b))) => {
            if n != count || b != bytes {
                post.problems.push(("sinks_disagree".into(), format!("MemSink<u64> holds {n} bits / different bytes than MemSink<u8> ({count} bits)")));
            }
        }
        Ok(Err(e)) => post.problems.push(("constructed_not_writable".into(), format!("write() into MemSink<u64> fails: {e}"))),
        Err(p) => post.problems.push((format!("write_{}", p.class()), format!("write() into MemSink<u64> panicked: {}", p.describe()))),
    }
    Some((bytes, count))
}

/// Parse-back comparison: the parsed component must re-serialise to the same bits.
fn post_parse<P: BitRepr, C>(c: &C, bytes: &[u8], nbits: usize, parsed: Result<Result<(usize, P), String>, panicx::PanicRec>, post: &mut Post, render_c: fn(&C) -> Option<String>, render_p: fn(&P) -> Option<String>) {
    match parsed {
        Err(p) => post.problems.push((format!("parse_back_{}", p.class()), format!("parsing the serialised component panicked: {}", p.describe()))),
        Ok(Err(e)) => post.problems.push(("parse_back_rejected".into(), format!("the serialised component does not parse back: {e}"))),
        Ok(Ok((used, pc))) => {
            if used != nbits {
                post.problems.push(("parse_back_length".into(), format!("the parser consumed {used} of {nbits} bits")));
            }
            match panicx::catch(|| {
                let mut s = ByteSink::new();
                pc.write(&mut s).map(|()| (s.len(), s.into_inner())).map_err(|e| format!("{e:?}"))
            }) {
                Ok(Ok((n2, b2))) => {
                    if n2 != nbits || b2 != bytes {
                        post.problems.push(("parse_back_differs".into(), "the parsed component re-serialises to different bits".into()));
                    } else if let (Some(a), Some(b)) = (render_c(c), render_p(&pc)) {
                        if a != b {
                            post.problems.push(("parse_back_not_identical".into(), format!("the parsed component differs from the constructed one although both serialise equally:\n  built : {a:.300}\n  parsed: {b:.300}")));
                        }
                    }
                }
                Ok(Err(e)) => post.problems.push(("parse_back_not_writable".into(), e)),
                Err(p) => post.problems.push((format!("parse_back_write_{}", p.class()), p.describe())),
            }
        }
    }
}

type BitErr<'a> = ((&'a [u8], usize), nom::error::ErrorKind);
type ByteErr<'a> = nom::error::Error<&'a [u8]>;

fn bits_used(total_bytes: usize, rest: (&[u8], usize)) -> usize {
    total_bytes * 8 - (rest.0.len() * 8 - rest.1)
}

fn short(e: impl std::fmt::Debug) -> String {
    format!("{e:?}").chars().take(120).collect()
}

/// Runs one constructor probe. Returns ("rejected" | "ok" | class of the first problem, problems).
fn run_ctor(c: &Ctor) -> (String, Vec<(String, String)>) {
    let mut post = Post::default();
    macro_rules! built {
        ($r:expr) => {
            match panicx::catch(|| $r) {
                Err(p) => return (format!("ctor_{}", p.class()), vec![(format!("ctor_{}", p.class()), format!("the constructor panicked: {}", p.describe()))]),
                Ok(Err(_)) => return ("rejected".into(), vec![]),
                Ok(Ok(x)) => x,
            }
        };
    }
    match c {
        Ctor::Residual(a) => {
            let r = built!(build_residual(a));
            if let Some((bytes, n)) = post_common(&r, &mut post) {
                let (bs, w) = (a.bs, a.warmup);
                let parsed = panicx::catch(|| parser::residual::<BitErr>(bs, w)((&bytes[..], 0)).map(|(rest, x)| (bits_used(bytes.len(), rest), x)).map_err(short));
                post_parse(&r, &bytes, n, parsed, &mut post, |x| Some(format!("{x:?}")), |x| Some(format!("{x:?}")));
            }
        }
        Ctor::QuantizedParameters { order, ncoefs, shift, precision, coef } => {
            let coefs = vec![*coef; (*ncoefs).min(64)];
            let q = built!(QuantizedParameters::new(&coefs, *order, *shift, *precision).map_err(|e| format!("{e:?}")));
            // no BitRepr of its own: exercised through an Lpc subframe below when it is consistent
            match panicx::catch(|| q.verify()) {
                Ok(Ok(())) => {}
                Ok(Err(e)) => post.problems.push(("constructed_fails_verify".into(), format!("{e:?}"))),
                Err(p) => post.problems.push((format!("verify_{}", p.class()), p.describe())),
            }
            if *order >= 1 && *order <= 32 && post.problems.is_empty() {
                let res = build_residual(&ResArgs { warmup: *order, bs: 64, po: 0, ..good_res() });
                if let Ok(res) = res {
                    let warm = vec![0i32; *order];
                    match panicx::catch(|| Lpc::new(&warm, q.clone(), res, 16)) {
                        Err(p) => post.problems.push((format!("lpc_new_{}", p.class()), format!("Lpc::new with the constructed parameters panicked: {}", p.describe()))),
                        Ok(Err(_)) => {}
                        Ok(Ok(l)) => {
                            if let Some((bytes, n)) = post_common(&l, &mut post) {
                                let parsed = panicx::catch(|| parser::lpc::<BitErr>(64, 16)((&bytes[..], 0)).map(|(rest, x)| (bits_used(bytes.len(), rest), x)).map_err(short));
                                post_parse(&l, &bytes, n, parsed, &mut post, |x| Some(format!("{x:?}")), |x| Some(format!("{x:?}")));
                            }
                        }
                    }
                }
            }
        }
        Ctor::Constant { bs, dc, bps } => {
            let k = built!(Constant::new(*bs, *dc, *bps).map_err(|e| format!("{e:?}")));
            if let Some((bytes, n)) = post_common(&k, &mut post) {
                let (bs, bps) = (*bs, *bps);
                let parsed = panicx::catch(|| parser::constant::<BitErr>(bs, bps)((&bytes[..], 0)).map(|(rest, x)| (bits_used(bytes.len(), rest), x)).map_err(short));
                post_parse(&k, &bytes, n, parsed, &mut post, |x| Some(format!("{x:?}")), |x| Some(format!("{x:?}")));
            }
        }
        Ctor::Verbatim { len, value, bps } => {
            let samples = vec![*value; (*len).min(1 << 17)];
            let k = built!(Verbatim::new(&samples, *bps).map_err(|e| format!("{e:?}")));
            if let Some((bytes, n)) = post_common(&k, &mut post) {
                let (len, bps) = (samples.len(), *bps);
                let parsed = panicx::catch(|| parser::verbatim::<BitErr>(len, bps)((&bytes[..], 0)).map(|(rest, x)| (bits_used(bytes.len(), rest), x)).map_err(short));
                post_parse(&k, &bytes, n, parsed, &mut post, |x| Some(format!("{x:?}")), |x| Some(format!("{x:?}")));
            }
        }
        Ctor::FixedLpc { warm_up, res_warmup, bs, bps, value } => {
            let res = match build_residual(&ResArgs { warmup: *res_warmup, bs: *bs, po: 0, ..good_res() }) {
                Ok(r) => r,
                Err(_) => return ("rejected".into(), vec![]),
            };
            let warm = vec![*value; *warm_up];
            let k = built!(FixedLpc::new(&warm, res, *bps).map_err(|e| format!("{e:?}")));
            if let Some((bytes, n)) = post_common(&k, &mut post) {
                let (bs, bps) = (*bs, *bps);
                let parsed = panicx::catch(|| parser::fixed_lpc::<BitErr>(bs, bps)((&bytes[..], 0)).map(|(rest, x)| (bits_used(bytes.len(), rest), x)).map_err(short));
                post_parse(&k, &bytes, n, parsed, &mut post, |x| Some(format!("{x:?}")), |x| Some(format!("{x:?}")));
            }
        }
        Ctor::Lpc { warm_up, order, res_warmup, bs, bps, precision, shift } => {
            let res = match build_residual(&ResArgs { warmup: *res_warmup, bs: *bs, po: 0, ..good_res() }) {
                Ok(r) => r,
                Err(_) => return ("rejected".into(), vec![]),
            };
            let coefs = vec![1i16; (*order).min(32)];
            let q = match panicx::catch(|| QuantizedParameters::new(&coefs, coefs.len(), *shift, *precision)) {
                Ok(Ok(q)) => q,
                _ => return ("rejected".into(), vec![]),
            };
            let warm = vec![0i32; *warm_up];
            let k = built!(Lpc::new(&warm, q, res, *bps).map_err(|e| format!("{e:?}")));
            if let Some((bytes, n)) = post_common(&k, &mut post) {
                let (bs, bps) = (*bs, *bps);
                let parsed = panicx::catch(|| parser::lpc::<BitErr>(bs, bps)((&bytes[..], 0)).map(|(rest, x)| (bits_used(bytes.len(), rest), x)).map_err(short));
                post_parse(&k, &bytes, n, parsed, &mut post, |x| Some(format!("{x:?}")), |x| Some(format!("{x:?}")));
            }
        }
        Ctor::FrameHeader { bs, assignment, bps, rate, offset_kind, n } => {
            let off = if *offset_kind == 0 { FrameOffset::Frame(*n as u32) } else { FrameOffset::StartSample(*n) };
            if *offset_kind == 0 && *n > u32::MAX as u64 {
                return ("rejected".into(), vec![]);
            }
            let h = built!(FrameHeader::new(*bs, assignment_of(*assignment), *bps, *rate, off).map_err(|e| format!("{e:?}")));
            if let Some((bytes, nb)) = post_common(&h, &mut post) {
                let parsed = panicx::catch(|| parser::frame_header::<ByteErr>(true)(&bytes[..]).map(|(rest, x)| ((bytes.len() - rest.len()) * 8, x)).map_err(short));
                post_parse(&h, &bytes, nb, parsed, &mut post, |x| Some(format!("{x:?}")), |x| Some(format!("{x:?}")));
            }
        }
        Ctor::Frame { bs, ch, bps, nsub, sub_bs, sub_bps, side } => {
            let ca = if *side && *ch == 2 { ChannelAssignment::MidSide } else { ChannelAssignment::Independent(*ch) };
            let hdr = match panicx::catch(|| FrameHeader::new(*bs, ca, *bps, 44100, FrameOffset::Frame(7))) {
                Ok(Ok(h)) => h,
                _ => return ("rejected".into(), vec![]),
            };
            let mut subs: Vec<SubFrame> = Vec::new();
            for i in 0..*nsub {
                let s: SubFrame = if i % 2 == 0 {
                    match Constant::new(*sub_bs, -1, *sub_bps) {
                        Ok(c) => c.into(),
                        Err(_) => return ("rejected".into(), vec![]),
                    }
                } else {
                    match Verbatim::new(&vec![1i32; *sub_bs], *sub_bps) {
                        Ok(c) => c.into(),
                        Err(_) => return ("rejected".into(), vec![]),
                    }
                };
                subs.push(s);
            }
            let f = built!(Frame::new(hdr, subs.into_iter()).map_err(|e| format!("{e:?}")));
            if let Some((bytes, nb)) = post_common(&f, &mut post) {
                if let Ok(info) = StreamInfo::new(44100, (*ch as usize).clamp(1, 8), (*bps).clamp(8, 24)) {
                    let parsed = panicx::catch(|| parser::frame::<ByteErr>(&info, true)(&bytes[..]).map(|(rest, x)| ((bytes.len() - rest.len()) * 8, x)).map_err(short));
                    post_parse(&f, &bytes, nb, parsed, &mut post, |x| Some(format!("{x:?}")), |x| Some(format!("{x:?}")));
                }
            }
        }
        Ctor::StreamInfo { rate, ch, bps, min_bs, max_bs, min_fs, max_fs, total } => {
            let mut si = built!(StreamInfo::new(*rate, *ch, *bps).map_err(|e| format!("{e:?}")));
            // setters: a rejected setter call leaves the probe "rejected"
            let r = panicx::catch(|| -> Result<(), String> {
                si.set_block_sizes(*min_bs, *max_bs).map_err(|e| format!("{e:?}"))?;
                si.set_frame_sizes(*min_fs, *max_fs).map_err(|e| format!("{e:?}"))?;
                si.set_total_samples(*total);
                Ok(())
            });
            match r {
                Err(p) => return (format!("setter_{}", p.class()), vec![(format!("setter_{}", p.class()), format!("a StreamInfo setter panicked: {}", p.describe()))]),
                Ok(Err(_)) => return ("rejected".into(), vec![]),
                Ok(Ok(())) => {}
            }
            if let Some((bytes, nb)) = post_common(&si, &mut post) {
                let parsed = panicx::catch(|| parser::stream_info::<ByteErr>(&bytes[..]).map(|(rest, x)| ((bytes.len() - rest.len()) * 8, x)).map_err(short));
                post_parse(&si, &bytes, nb, parsed, &mut post, |x| Some(format!("{x:?}")), |x| Some(format!("{x:?}")));
                // and as the head of a stream
                let s = Stream::with_stream_info(si.clone());
                if let Some((sb, sn)) = post_common(&s, &mut post) {
                    let parsed = panicx::catch(|| parser::stream::<ByteErr>(&sb[..]).map(|(rest, x)| ((sb.len() - rest.len()) * 8, x)).map_err(short));
                    post_parse(&s, &sb, sn, parsed, &mut post, |_| None, |_| None);
                }
            }
        }
        Ctor::StreamInfoBare { rate, ch, bps } => {
            // the component exactly as the constructor returns it (documented default fields)
            let si = built!(StreamInfo::new(*rate, *ch, *bps).map_err(|e| format!("{e:?}")));
            if let Some((bytes, nb)) = post_common(&si, &mut post) {
                let parsed = panicx::catch(|| parser::stream_info::<ByteErr>(&bytes[..]).map(|(rest, x)| ((bytes.len() - rest.len()) * 8, x)).map_err(short));
                post_parse(&si, &bytes, nb, parsed, &mut post, |x| Some(format!("{x:?}")), |x| Some(format!("{x:?}")));
            }
            if let Ok(Ok(s)) = panicx::catch(|| Stream::new(*rate, *ch, *bps)) {
                if let Some((sb, sn)) = post_common(&s, &mut post) {
                    let parsed = panicx::catch(|| parser::stream::<ByteErr>(&sb[..]).map(|(rest, x)| ((sb.len() - rest.len()) * 8, x)).map_err(short));
                    post_parse(&s, &sb, sn, parsed, &mut post, |x| Some(format!("{:?}", x.stream_info())), |x| Some(format!("{:?}", x.stream_info())));
                }
            }
        }
        Ctor::FrameSeq { a, b, bps, bs } => {
            let mk = |asg: u8, n: u32| -> Result<Frame, String> {
                let ca = match asg {
                    0 => ChannelAssignment::Independent(2),
                    1 => ChannelAssignment::LeftSide,
                    2 => ChannelAssignment::RightSide,
                    _ => ChannelAssignment::MidSide,
                };
                let hdr = FrameHeader::new(*bs, ca, *bps, 44100, FrameOffset::Frame(n)).map_err(|e| format!("{e:?}"))?;
                let side_ch = match asg {
                    0 => usize::MAX,
                    2 => 0,
                    _ => 1,
                };
                let mut subs: Vec<SubFrame> = Vec::new();
                for ch in 0..2usize {
                    if ch == side_ch {
                        let w = *bps + 1;
                        let (hi, lo) = ((1i32 << (w - 1)) - 1, -(1i32 << (w - 1)));
                        let v: Vec<i32> = (0..*bs as i32).map(|t| if t % 2 == 0 { hi - t } else { lo + t }).collect();
                        subs.push(Verbatim::new(&v, w).map_err(|e| format!("{e:?}"))?.into());
                    } else {
                        subs.push(Constant::new(*bs, -77 - n as i32, *bps).map_err(|e| format!("{e:?}"))?.into());
                    }
                }
                Frame::new(hdr, subs.into_iter()).map_err(|e| format!("{e:?}"))
            };
            let fa = built!(mk(*a, 0));
            let fb = built!(mk(*b, 1));
            let fa2 = built!(mk(*a, 2));
            let (Some((ba, na)), Some((bb, nb))) = (post_common(&fa, &mut post), post_common(&fb, &mut post)) else {
                return (post.problems[0].0.clone(), post.problems);
            };
            if let Ok(info) = StreamInfo::new(44100, 2, *bps) {
                // one parser value, two consecutive frames
                let both: Vec<u8> = ba.iter().chain(bb.iter()).copied().collect();
                let r = panicx::catch(|| {
                    let mut parse = parser::frame::<ByteErr>(&info, true);
                    let (rest, p1) = parse(&both[..]).map_err(|e| format!("first frame: {}", short(e)))?;
                    let used1 = both.len() - rest.len();
                    let (rest2, p2) = parse(rest).map_err(|e| format!("second frame (same parser value): {}", short(e)))?;
                    Ok::<_, String>((used1 * 8, p1, (rest.len() - rest2.len()) * 8, p2))
                });
                match r {
                    Err(p) => post.problems.push((format!("parse_back_{}", p.class()), format!("parsing two consecutive frames panicked: {}", p.describe()))),
                    Ok(Err(e)) => post.problems.push(("parse_back_rejected|second_frame_of_one_parser".into(), format!("two constructed frames, serialised one after the other, do not parse back with one parser value: {e}"))),
                    Ok(Ok((u1, p1, u2, p2))) => {
                        post_parse(&fa, &ba, na, Ok(Ok((u1, p1))), &mut post, |x| Some(format!("{x:?}")), |x| Some(format!("{x:?}")));
                        post_parse(&fb, &bb, nb, Ok(Ok((u2, p2))), &mut post, |x| Some(format!("{x:?}")), |x| Some(format!("{x:?}")));
                    }
                }
            }
            if let Ok(Ok(mut s)) = panicx::catch(|| Stream::new(44100, 2, *bps)) {
                s.add_frame(fa.clone());
                s.add_frame(fb.clone());
                s.add_frame(fa2);
                if let Some((sb, sn)) = post_common(&s, &mut post) {
                    let parsed = panicx::catch(|| parser::stream::<ByteErr>(&sb[..]).map(|(rest, x)| ((sb.len() - rest.len()) * 8, x)).map_err(short));
                    post_parse(&s, &sb, sn, parsed, &mut post, |x| Some(format!("{:?}", x.frame_count())), |x| Some(format!("{:?}", x.frame_count())));
                }
            }
        }
        Ctor::MetadataUnknown { tag, len } => {
            let data: Vec<u8> = (0..*len).map(|i| (i % 251) as u8).collect();
            let m = built!(MetadataBlockData::new_unknown(*tag, &data).map_err(|e| format!("{e:?}")));
            if post_common(&m, &mut post).is_some() {
                if let Ok(mut s) = Stream::new(44100, 2, 16) {
                    s.add_metadata_block(m);
                    if let Some((sb, sn)) = post_common(&s, &mut post) {
                        let parsed = panicx::catch(|| parser::stream::<ByteErr>(&sb[..]).map(|(rest, x)| ((sb.len() - rest.len()) * 8, x)).map_err(short));
                        post_parse(&s, &sb, sn, parsed, &mut post, |_| None, |_| None);
                    }
                }
            }
        }
    }
    if post.problems.is_empty() {
        ("ok".into(), vec![])
    } else {
        (post.problems[0].0.clone(), post.problems)
    }
}

fn ctor_name(c: &Ctor) -> &'static str {
    match c {
        Ctor::Residual(_) => "Residual::new",
        Ctor::QuantizedParameters { .. } => "QuantizedParameters::new",
        Ctor::Constant { .. } => "Constant::new",
        Ctor::Verbatim { .. } => "Verbatim::new",
        Ctor::FixedLpc { .. } => "FixedLpc::new",
        Ctor::Lpc { .. } => "Lpc::new",
        Ctor::FrameHeader { .. } => "FrameHeader::new",
        Ctor::Frame { .. } => "Frame::new",
        Ctor::StreamInfo { .. } => "StreamInfo::new+setters",
        Ctor::StreamInfoBare { .. } => "StreamInfo::new / Stream::new as returned",
        Ctor::MetadataUnknown { .. } => "MetadataBlockData::new_unknown",
        Ctor::FrameSeq { .. } => "Frame::new (two consecutive frames / a stream of three)",
    }
}

/// All values obtained from `base` by replacing at most two coordinates by grid values.
fn two_deviations<T: Clone>(base: &T, setters: &[Vec<Box<dyn Fn(&mut T) + Send + Sync>>]) -> Vec<T> {
    let mut out = vec![base.clone()];
    for (i, si) in setters.iter().enumerate() {
        for f in si {
            let mut a = base.clone();
            f(&mut a);
            out.push(a.clone());
            for sj in setters.iter().skip(i + 1) {
                for g in sj {
                    let mut b = a.clone();
                    g(&mut b);
                    out.push(b);
                }
            }
        }
    }
    out
}

macro_rules! setters {
    ($t:ty; $( $field:ident : [$($v:expr),* $(,)?] ),* $(,)?) => {
        vec![ $( vec![ $( Box::new(move |a: &mut $t| a.$field = $v) as Box<dyn Fn(&mut $t) + Send + Sync> ),* ] ),* ]
    };
}

pub fn probes() -> Vec<Ctor> {
    let mut v: Vec<Ctor> = Vec::new();
    // Residual::new
    let rs = setters!(ResArgs;
        po: [0, 1, 3, 4, 5, 6, 7, 8, 15, 16, 31, 32, 63, 64, 255, 256, usize::MAX],
        bs: [0, 1, 15, 16, 17, 63, 65, 192, 4096, 32767, 32768, 65535, 65536],
        warmup: [0, 1, 4, 16, 17, 32, 33, 63, 64, 65, 4096],
        nparams: [0, 1, 3, 5, 8],
        p: [0, 14, 15, 16, 30, 31, 32, 33, 255],
        qlen: [0, 1, 63, 65, 128],
        rlen: [0, 1, 63, 65, 128],
        rbad: [1, 2],
        wbad: [1, 2],
        qlast: [0, 1 << 16, u32::MAX],
    );
    v.extend(two_deviations(&good_res(), &rs).into_iter().map(Ctor::Residual));
    // QuantizedParameters::new
    #[derive(Clone)]
    struct Q {
        order: usize,
        ncoefs: usize,
        shift: i8,
        precision: usize,
        coef: i16,
    }
    let qs = setters!(Q;
        order: [0, 1, 2, 24, 25, 31, 32, 33, 64, 255, BIG, usize::MAX],
        ncoefs: [0, 1, 7, 9, 24, 32, 33, 64],
        shift: [-128, -16, -1, 0, 14, 15, 16, 31, 32, 127],
        precision: [0, 1, 2, 14, 15, 16, 17, 255, BIG + 8],
        coef: [0, -1, 127, -128, 128, -129, 1, 2, -2, -3, 16383, 16384, -16384, 255, i16::MAX, i16::MIN],
    );
    v.extend(two_deviations(&Q { order: 8, ncoefs: 8, shift: 5, precision: 8, coef: 3 }, &qs).into_iter().map(|q| Ctor::QuantizedParameters { order: q.order, ncoefs: q.ncoefs, shift: q.shift, precision: q.precision, coef: q.coef }));
    // Constant / Verbatim
    for bs in [0usize, 1, 15, 16, 192, 32767, 32768, 65535, 65536, BIG, BIG + 192, usize::MAX] {
        for bps in [0usize, 1, 7, 8, 9, 16, 24, 25, 26, 31, 32, 33, 64, 256 + 16, BIG + 16, usize::MAX] {
            for dc in [0i32, -1, 127, 128, -128, -129, 32767, 32768, -32769, (1 << 23) - 1, 1 << 23, 1 << 24, -(1 << 24) - 1, i32::MAX, i32::MIN] {
                v.push(Ctor::Constant { bs, dc, bps });
            }
        }
    }
    for len in [0usize, 1, 15, 16, 192, 32767, 32768, 65536] {
        for bps in [0usize, 7, 8, 16, 24, 25, 26, 32, 33, 256 + 16, usize::MAX] {
            for value in [0i32, -1, 127, 128, -129, 1 << 23, i32::MAX, i32::MIN] {
                v.push(Ctor::Verbatim { len, value, bps });
            }
        }
    }
    // FixedLpc / Lpc
    for warm_up in 0..=6usize {
        for res_warmup in [0usize, 1, 2, 4, 5, 33] {
            for bs in [16usize, 64, 4, 3] {
                for bps in [7usize, 8, 16, 25, 26, 256 + 16] {
                    for value in [0i32, 32767, 32768, i32::MIN] {
                        v.push(Ctor::FixedLpc { warm_up, res_warmup, bs, bps, value });
                    }
                }
            }
        }
    }
    for warm_up in [0usize, 1, 8, 9, 24, 32, 33, 40] {
        for order in [1usize, 8, 24, 32] {
            for res_warmup in [0usize, 8, 9, 32, 64, 65] {
                for bs in [64usize, 16, 8] {
                    for bps in [8usize, 16, 25, 26] {
                        for (precision, shift) in [(8usize, 5i8), (15, 0), (1, 14), (15, 15)] {
                            v.push(Ctor::Lpc { warm_up, order, res_warmup, bs, bps, precision, shift });
                        }
                    }
                }
            }
        }
    }
    // FrameHeader::new
    #[derive(Clone)]
    struct H {
        bs: usize,
        assignment: usize,
        bps: usize,
        rate: usize,
        offset_kind: u8,
        n: u64,
    }
    let hs = setters!(H;
        bs: [0, 1, 15, 16, 191, 193, 256, 257, 512, 576, 1152, 2304, 4608, 9216, 18432, 8192, 16384, 32767, 32768, 65535, 65536, BIG + 192, usize::MAX],
        assignment: [0, 1, 8, 9, 16, 255, 256, 257, 258],
        bps: [0, 7, 8, 12, 20, 24, 25, 32, 33, 256 + 16, BIG + 16],
        rate: [0, 1, 255, 256, 65535, 65536, 95999, 96000, 96001, 176400, 192000, 655350, 655351, 1 << 20, BIG + 44100, usize::MAX],
        offset_kind: [1],
        n: [1, 127, 128, (1 << 31) - 1, 1 << 31, u32::MAX as u64, 1 << 32, (1 << 36) - 1, 1 << 36, u64::MAX],
    );
    v.extend(two_deviations(&H { bs: 192, assignment: 2, bps: 16, rate: 44100, offset_kind: 0, n: 0 }, &hs).into_iter().map(|h| Ctor::FrameHeader { bs: h.bs, assignment: h.assignment, bps: h.bps, rate: h.rate, offset_kind: h.offset_kind, n: h.n }));
    // Frame::new
    for ch in [1u8, 2, 3, 8] {
        for nsub in [0usize, 1, 2, 3, 8, 9] {
            for (bs, sub_bs) in [(64usize, 64usize), (64, 32), (64, 65), (192, 16)] {
                for (bps, sub_bps) in [(16usize, 16usize), (16, 8), (16, 17), (24, 25), (8, 24)] {
                    for side in [false, true] {
                        v.push(Ctor::Frame { bs, ch, bps, nsub, sub_bs, sub_bps, side });
                    }
                }
            }
        }
    }
    // sequences of constructed frames: every ordered pair of channel assignments
    for a in 0..4u8 {
        for b in 0..4u8 {
            for bps in [8usize, 16, 24, 7, 32] {
                for bs in [16usize, 64, 0] {
                    v.push(Ctor::FrameSeq { a, b, bps, bs });
                }
            }
        }
    }
    // StreamInfo::new / Stream::new as returned (no setter called)
    for rate in [0usize, 1, 44100, 96000, 96001, 1 << 20] {
        for ch in [0usize, 1, 2, 8, 9] {
            for bps in [0usize, 7, 8, 9, 12, 16, 17, 20, 24, 25, 32] {
                v.push(Ctor::StreamInfoBare { rate, ch, bps });
            }
        }
    }
    // StreamInfo::new + setters
    #[derive(Clone)]
    struct S {
        rate: usize,
        ch: usize,
        bps: usize,
        min_bs: usize,
        max_bs: usize,
        min_fs: usize,
        max_fs: usize,
        total: usize,
    }
    let ss = setters!(S;
        rate: [0, 1, 96000, 96001, 1 << 20, BIG + 44100],
        ch: [0, 1, 8, 9, 256 + 2, BIG + 2],
        bps: [0, 7, 8, 24, 25, 26, 32, 33, 256 + 16],
        min_bs: [0, 1, 15, 16, 4096, 4097, 32767, 32768, 65535, 65536, BIG + 4096],
        max_bs: [0, 15, 16, 4095, 32767, 32768, 65535, 65536, BIG + 4096],
        min_fs: [0, 1, 5000, 5001, (1 << 24) - 1, 1 << 24, BIG + 10],
        max_fs: [0, 9, 10, (1 << 24) - 1, 1 << 24, u32::MAX as usize, BIG + 5000],
        // set_total_samples returns no Result (a setter, not a constructor): values beyond 36 bits are not probed
        total: [0, 1, (1 << 36) - 1],
    );
    v.extend(two_deviations(&S { rate: 44100, ch: 2, bps: 16, min_bs: 4096, max_bs: 4096, min_fs: 10, max_fs: 5000, total: 12345 }, &ss).into_iter().map(|s| Ctor::StreamInfo { rate: s.rate, ch: s.ch, bps: s.bps, min_bs: s.min_bs, max_bs: s.max_bs, min_fs: s.min_fs, max_fs: s.max_fs, total: s.total }));
    // MetadataBlockData::new_unknown
    for tag in [0u8, 1, 2, 6, 7, 126, 127, 128, 255] {
        for len in [0usize, 1, 255, 65536, (1 << 24) - 1, 1 << 24, (1 << 24) + 1] {
            v.push(Ctor::MetadataUnknown { tag, len });
        }
    }
    v
}

fn check(rep: &Report, local: &mut Local, c: &Ctor) {
    local.evals += 1;
    let name = ctor_name(c);
    local.count(&format!("probes_{name}"), 1);
    let (outcome, problems) = run_ctor(c);
    match outcome.as_str() {
        "rejected" => local.outcome(&format!("{name}:Err")),
        "ok" => {
            local.outcome(&format!("{name}:Ok+postconditions"));
            local.nontrivial.insert(crate::universe::fnv(&format!("{c:?}")));
        }
        _ => {
            local.outcome(&format!("{name}:violation"));
            for (class, what) in problems {
                rep.violation(&format!("{name}|{class}"), &format!("{name} with {c:?}: {what}"), json!({"constructor_probe": c}), 1);
            }
        }
    }
}

pub fn run(args: &Args, rep: &Arc<Report>) {
    if let Some(p) = &args.replay {
        let s = std::fs::read_to_string(p).unwrap_or_default();
        let v: Value = serde_json::from_str(&s).unwrap_or(Value::Null);
        let c = v.get("case").cloned().unwrap_or(v);
        let probe: Ctor = serde_json::from_value(c["constructor_probe"].clone()).expect("replay file holds no constructor probe");
        let mut local = Local::default();
        check(rep, &mut local, &probe);
        rep.merge(local);
        rep.set_rule("replay of one recorded probe");
        return;
    }
    let ps = probes();
    let n = ps.len();
    let chunk = 32;
    par_for(
        rep,
        (n + chunk - 1) / chunk,
        Duration::from_secs(300),
        |i| json!({"constructor_probe": ps[i * chunk]}),
        |i, local| {
            for p in &ps[i * chunk..((i + 1) * chunk).min(n)] {
                check(rep, local, p);
            }
        },
    );
    for p in ps.iter().step_by(n / 4 + 1) {
        rep.sample(json!({"constructor_probe": p}));
    }
    rep.extra("probes", json!(n));
    rep.set_rule("constructors: Residual::new, QuantizedParameters::new, Constant::new, Verbatim::new, FixedLpc::new, Lpc::new, FrameHeader::new, Frame::new, StreamInfo::new + set_block_sizes/set_frame_sizes/set_total_samples, MetadataBlockData::new_unknown; for the constructors with many arguments every combination of at most two deviating arguments from a valid call over boundary / inconsistent values (lengths that disagree, partition orders up to usize::MAX, block sizes 0/1/not divisible, warm-up beyond the block, parameters 15/16/31/32/255, remainders >= 2^p, precision 0/16, order != coefficient count, orders 25/33, shifts -1/16, widths 0/7/25/26/32, frame numbers >= 2^31, sample numbers >= 2^36, sizes >= 2^24), full products for the small ones; oracle: Err, or Ok(c) with verify() ok, write ok into MemSink<u8>/MemSink<u64>/counting sink with exactly count_bits() bits, and the matching parser returns a component that re-serialises to the same bits and renders (Debug) identically; no panic anywhere; non-trivial = an accepted call whose post-conditions all held");
}
