//! Everything that touches the subject (`flacenc`) for the stream-level checks: configuration
//! construction, the three sample deliveries, the three encoding paths and serialisation.
use crate::panicx::{self, PanicRec};
use crate::universe::{Case, Cfg, Input};
use flacenc::bitsink::ByteSink;
use flacenc::component::{BitRepr, Stream};
use flacenc::config;
use flacenc::error::{SourceError, Verified, Verify};
use flacenc::source::{Context, Fill, FrameBuf, MemSource, Source};

pub const MAX_STREAM_BITS: usize = 64 << 23; // 64 MiB

pub fn make_config(c: &Cfg, multithread: bool, block_size: usize) -> config::Encoder {
    let mut e = config::Encoder::default();
    // the block size argument of the encode call overrides the configured one
    e.block_size = if c.cfg_bs_mismatch { if block_size == 4096 { 1024 } else { 4096 } } else { block_size };
    e.multithread = multithread;
    e.workers = std::num::NonZeroUsize::new(c.workers as usize);
    e.stereo_coding.use_leftside = c.ls;
    e.stereo_coding.use_rightside = c.rs;
    e.stereo_coding.use_midside = c.ms;
    e.subframe_coding.use_constant = c.use_constant;
    e.subframe_coding.use_fixed = c.use_fixed;
    e.subframe_coding.use_lpc = c.use_lpc;
    e.subframe_coding.fixed.max_order = c.fixed_max_order as usize;
    e.subframe_coding.fixed.order_sel = if c.order_sel == 0 {
        config::OrderSel::BitCount
    } else {
        config::OrderSel::ApproxEnt { partitions: c.order_sel as usize }
    };
    e.subframe_coding.qlpc.lpc_order = c.lpc_order as usize;
    e.subframe_coding.qlpc.quant_precision = c.precision as usize;
    e.subframe_coding.qlpc.window = if c.window < 0.0 {
        config::Window::Rectangle
    } else {
        config::Window::Tukey { alpha: c.window }
    };
    e.subframe_coding.prc.max_parameter = c.max_param as usize;
    e.subframe_coding.qlpc.use_direct_mse = c.direct_mse;
    e.subframe_coding.qlpc.mae_optimization_steps = c.mae_steps as usize;
    e
}

pub fn bytes_per_sample(bps: usize) -> usize {
    (bps + 7) / 8
}

pub fn to_le_bytes(samples: &[i32], bps: usize) -> Vec<u8> {
    let n = bytes_per_sample(bps);
    let mut out = Vec::with_capacity(samples.len() * n);
    for s in samples {
        out.extend_from_slice(&s.to_le_bytes()[..n]);
    }
    out
}

/// Integer delivery without a length hint.
pub struct IntSource {
    pub ch: usize,
    pub bps: usize,
    pub rate: usize,
    pub samples: Vec<i32>,
    pub pos: usize,
    pub reads: usize,
    /// what `len_hint` answers (it is only a hint: it may be absent or inaccurate)
    pub hint: Option<usize>,
    /// issue an empty fill before the fill that delivers the block (a no-op for the buffer and the context)
    pub empty_first: bool,
}

impl Source for IntSource {
    fn len_hint(&self) -> Option<usize> {
        self.hint
    }
    fn channels(&self) -> usize {
        self.ch
    }
    fn bits_per_sample(&self) -> usize {
        self.bps
    }
    fn sample_rate(&self) -> usize {
        self.rate
    }
    fn read_samples<F: Fill>(&mut self, block_size: usize, dest: &mut F) -> Result<usize, SourceError> {
        self.reads += 1;
        let want = block_size * self.ch;
        let end = (self.pos + want).min(self.samples.len());
        if self.empty_first {
            dest.fill_interleaved(&[])?;
        }
        dest.fill_interleaved(&self.samples[self.pos..end])?;
        let n = (end - self.pos) / self.ch;
        self.pos = end;
        Ok(n)
    }
}

/// Integer delivery in packets: some reads return fewer samples than asked for although the input
/// has not ended (a pipe, a network stream). Both encoding modes turn every read into a frame.
pub struct PacketSource {
    pub ch: usize,
    pub bps: usize,
    pub rate: usize,
    pub samples: Vec<i32>,
    pub pos: usize,
    pub reads: usize,
    /// issue an empty fill before the fill that delivers the samples (a no-op for `FrameBuf`/`Context`)
    pub empty_first: bool,
}

impl Source for PacketSource {
    fn channels(&self) -> usize {
        self.ch
    }
    fn bits_per_sample(&self) -> usize {
        self.bps
    }
    fn sample_rate(&self) -> usize {
        self.rate
    }
    fn read_samples<F: Fill>(&mut self, block_size: usize, dest: &mut F) -> Result<usize, SourceError> {
        // read lengths cycle through: full, half, full, one sample, full - 1
        let want = match self.reads % 5 {
            1 => (block_size / 2).max(1),
            3 => 1,
            4 => (block_size - 1).max(1),
            _ => block_size,
        };
        self.reads += 1;
        let end = (self.pos + want * self.ch).min(self.samples.len());
        if self.empty_first {
            dest.fill_interleaved(&[])?;
        }
        dest.fill_interleaved(&self.samples[self.pos..end])?;
        let n = (end - self.pos) / self.ch;
        self.pos = end;
        Ok(n)
    }
}

/// Packed little-endian byte delivery without a length hint.
pub struct ByteSource {
    pub ch: usize,
    pub bps: usize,
    pub rate: usize,
    pub bytes: Vec<u8>,
    pub pos: usize,
}

impl Source for ByteSource {
    fn channels(&self) -> usize {
        self.ch
    }
    fn bits_per_sample(&self) -> usize {
        self.bps
    }
    fn sample_rate(&self) -> usize {
        self.rate
    }
    fn read_samples<F: Fill>(&mut self, block_size: usize, dest: &mut F) -> Result<usize, SourceError> {
        let b = bytes_per_sample(self.bps);
        let want = block_size * self.ch * b;
        let end = (self.pos + want).min(self.bytes.len());
        dest.fill_le_bytes(&self.bytes[self.pos..end], b)?;
        let n = (end - self.pos) / self.ch / b;
        self.pos = end;
        Ok(n)
    }
}

#[derive(Clone, Copy, Debug, PartialEq, Eq)]
pub enum Mode {
    St,
    Mt,
    Frame,
}

impl Mode {
    pub fn name(self) -> &'static str {
        match self {
            Mode::St => "st",
            Mode::Mt => "mt",
            Mode::Frame => "frame",
        }
    }
}

#[derive(Debug)]
pub enum EncFail {
    /// configuration rejected by verification
    ConfigRejected(String),
    /// the encode call returned an error
    Error(String),
    Panic(PanicRec),
    /// the stream reports more than MAX_STREAM_BITS bits; not serialised
    TooBig(usize),
}

impl EncFail {
    pub fn class(&self) -> String {
        match self {
            EncFail::ConfigRejected(_) => "config_rejected".into(),
            EncFail::Error(e) => format!("encode_error:{}", e.chars().filter(|c| !c.is_ascii_digit()).take(60).collect::<String>()),
            EncFail::Panic(p) => p.class(),
            EncFail::TooBig(_) => "giant_stream".into(),
        }
    }
    pub fn describe(&self) -> String {
        match self {
            EncFail::ConfigRejected(e) => format!("configuration rejected: {e}"),
            EncFail::Error(e) => format!("encode returned Err: {e}"),
            EncFail::Panic(p) => format!("panic: {}", p.describe()),
            EncFail::TooBig(b) => format!("stream reports {b} bits (> 64 MiB), not serialised"),
        }
    }
}

pub fn verified(cfg: &Cfg, multithread: bool, bs: usize) -> Result<Verified<config::Encoder>, EncFail> {
    make_config(cfg, multithread, bs)
        .into_verified()
        .map_err(|(_, e)| EncFail::ConfigRejected(format!("{e}")))
}

/// Encodes through the stream-level entry point with the case's delivery kind.
pub fn encode_stream(input: &Input, samples: &[i32], cfg: &Verified<config::Encoder>) -> Result<Stream, EncFail> {
    let (ch, bps, rate, bs) = (input.ch as usize, input.bps as usize, input.rate as usize, input.bs as usize);
    let r = panicx::catch(|| match input.delivery {
        0 => flacenc::encode_with_fixed_block_size(cfg, MemSource::from_samples(samples, ch, bps, rate), bs),
        1 => flacenc::encode_with_fixed_block_size(
            cfg,
            IntSource { ch, bps, rate, samples: samples.to_vec(), pos: 0, reads: 0, hint: None, empty_first: false },
            bs,
        ),
        // inaccurate length hints: the length rounded up / down to a whole number of blocks
        3 | 4 => {
            let n = samples.len() / ch.max(1);
            let hint = if input.delivery == 3 { (n + bs - 1) / bs * bs } else { n / bs * bs };
            flacenc::encode_with_fixed_block_size(cfg, IntSource { ch, bps, rate, samples: samples.to_vec(), pos: 0, reads: 0, hint: Some(hint), empty_first: false }, bs)
        }
        // full reads, each preceded by an empty fill
        5 => flacenc::encode_with_fixed_block_size(cfg, IntSource { ch, bps, rate, samples: samples.to_vec(), pos: 0, reads: 0, hint: None, empty_first: true }, bs),
        _ => flacenc::encode_with_fixed_block_size(
            cfg,
            ByteSource { ch, bps, rate, bytes: to_le_bytes(samples, bps), pos: 0 },
            bs,
        ),
    });
    match r {
        Err(p) => Err(EncFail::Panic(p)),
        Ok(Err(e)) => Err(EncFail::Error(format!("{e:?}"))),
        Ok(Ok(s)) => Ok(s),
    }
}

/// Assembles the stream frame by frame through the public frame-level entry point, the way the
/// crate documentation describes (FrameBuf + Context + encode_fixed_size_frame + add_frame).
pub fn encode_framewise(
    input: &Input,
    samples: &[i32],
    cfg: &Verified<config::Encoder>,
) -> Result<Stream, EncFail> {
    let (ch, bps, rate, bs) = (input.ch as usize, input.bps as usize, input.rate as usize, input.bs as usize);
    let r = panicx::catch(|| -> Result<Stream, String> {
        let mut stream = Stream::new(rate, ch, bps).map_err(|e| format!("{e:?}"))?;
        let mut fb = FrameBuf::with_size(ch, bs).map_err(|e| format!("{e:?}"))?;
        let mut ctx = Context::new(bps, ch);
        let by = bytes_per_sample(bps);
        let mut pos = 0;
        while pos < samples.len() {
            let end = (pos + bs * ch).min(samples.len());
            let blk = &samples[pos..end];
            if input.delivery == 2 {
                let b = to_le_bytes(blk, bps);
                fb.fill_le_bytes(&b, by).map_err(|e| format!("{e:?}"))?;
                ctx.fill_le_bytes(&b, by).map_err(|e| format!("{e:?}"))?;
            } else {
                if input.delivery == 5 {
                    fb.fill_interleaved(&[]).map_err(|e| format!("{e:?}"))?;
                    ctx.fill_interleaved(&[]).map_err(|e| format!("{e:?}"))?;
                }
                fb.fill_interleaved(blk).map_err(|e| format!("{e:?}"))?;
                ctx.fill_interleaved(blk).map_err(|e| format!("{e:?}"))?;
            }
            let n = ctx.current_frame_number().ok_or("no frame number")?;
            let frame = flacenc::encode_fixed_size_frame(cfg, &fb, n, stream.stream_info())
                .map_err(|e| format!("{e:?}"))?;
            stream.add_frame(frame);
            pos = end;
        }
        stream.stream_info_mut().set_block_sizes(bs, bs).map_err(|e| format!("{e:?}"))?;
        stream.stream_info_mut().set_md5_digest(&ctx.md5_digest());
        stream.stream_info_mut().set_total_samples(ctx.total_samples());
        Ok(stream)
    });
    match r {
        Err(p) => Err(EncFail::Panic(p)),
        Ok(Err(e)) => Err(EncFail::Error(e)),
        Ok(Ok(s)) => Ok(s),
    }
}

/// Serialises a stream into bytes (guarded by the reported size).
pub fn stream_bytes(s: &Stream) -> Result<Vec<u8>, EncFail> {
    let bits = match panicx::catch(|| s.count_bits()) {
        Ok(b) => b,
        Err(p) => return Err(EncFail::Panic(p)),
    };
    if bits > MAX_STREAM_BITS {
        return Err(EncFail::TooBig(bits));
    }
    match panicx::catch(|| {
        let mut sink = ByteSink::with_capacity(bits);
        s.write(&mut sink).map(|()| sink.into_inner()).map_err(|e| format!("{e:?}"))
    }) {
        Err(p) => Err(EncFail::Panic(p)),
        Ok(Err(e)) => Err(EncFail::Error(format!("write: {e}"))),
        Ok(Ok(b)) => Ok(b),
    }
}

/// One encode of `case` in `mode` (no serialisation).
pub fn encode(case: &Case, samples: &[i32], mode: Mode) -> Result<Stream, EncFail> {
    let cfg = verified(&case.cfg, mode == Mode::Mt, case.input.bs as usize)?;
    match mode {
        Mode::St | Mode::Mt => encode_stream(&case.input, samples, &cfg),
        Mode::Frame => encode_framewise(&case.input, samples, &cfg),
    }
}

/// One encode of `case` in `mode`, down to bytes.
pub fn encode_bytes(case: &Case, samples: &[i32], mode: Mode) -> Result<(Stream, Vec<u8>), EncFail> {
    let s = encode(case, samples, mode)?;
    let b = stream_bytes(&s)?;
    Ok((s, b))
}

/// In the quick tier the multi-thread path (thread creation dominates its cost) is exercised for
/// every case with at most one deviation and for every case whose `workers` coordinate deviates;
/// the thorough tier extends this to two deviations. Byte equality of MT and ST output under every
/// interleaving is C05's subject.
pub fn mt_in_scope(thorough: bool, labels: &[String]) -> bool {
    let lim = if thorough { 2 } else { 1 };
    labels.len() <= lim && !labels.iter().any(|l| l.starts_with('G')) || labels.iter().any(|l| l.starts_with("workers#")) || labels.iter().any(|l| l == "replay")
}

/// Decodes with claxon: (rate, channels, bps, total samples, interleaved samples).
pub struct ClaxonOut {
    pub rate: u32,
    pub channels: u32,
    pub bps: u32,
    pub total: Option<u64>,
    pub samples: Vec<i32>,
}

pub fn claxon_decode(bytes: &[u8]) -> Result<ClaxonOut, String> {
    let r = panicx::catch(|| -> Result<ClaxonOut, String> {
        let mut reader = claxon::FlacReader::new(std::io::Cursor::new(bytes)).map_err(|e| format!("open: {e}"))?;
        let si = reader.streaminfo();
        let ch = si.channels as usize;
        let mut out: Vec<i32> = Vec::with_capacity(si.samples.unwrap_or(0) as usize * ch);
        {
            let mut blocks = reader.blocks();
            let mut buf: Vec<i32> = Vec::new();
            loop {
                match blocks.read_next_or_eof(buf) {
                    Ok(Some(block)) => {
                        let n = block.duration() as usize;
                        for t in 0..n {
                            for c in 0..ch {
                                out.push(block.sample(c as u32, t as u32));
                            }
                        }
                        buf = block.into_buffer();
                    }
                    Ok(None) => break,
                    Err(e) => return Err(format!("frame: {e}")),
                }
            }
        }
        Ok(ClaxonOut { rate: si.sample_rate, channels: si.channels, bps: si.bits_per_sample, total: si.samples, samples: out })
    });
    match r {
        Ok(x) => x,
        Err(p) => Err(format!("claxon panicked: {}", p.describe())),
    }
}

/// A write the sink refuses at its first operation, made on the calling thread: of a frame header (every
/// `which`), and of a whole frame (odd `which`). What a refused write leaves on the thread must not
/// reach the next serialisation.
pub fn refused_writes(which: u64) {
    use crate::bitmodel::{FailingSink, Flavour};
    use flacenc::component::{ChannelAssignment, FrameHeader, FrameOffset};
    let _ = panicx::catch(|| {
        if let Ok(h) = FrameHeader::new(192, ChannelAssignment::Independent(2), 16, 44100, FrameOffset::StartSample(987_654_321)) {
            let _ = h.write(&mut FailingSink::new(0, Flavour::Full));
        }
        if which % 2 == 1 {
            if let (Ok(info), Ok(mut fb)) = (flacenc::component::StreamInfo::new(44100, 1, 16), FrameBuf::with_size(1, 32)) {
                let _ = fb.fill_interleaved(&[5; 32]);
                if let Ok(cfg) = config::Encoder::default().into_verified() {
                    if let Ok(fr) = flacenc::encode_fixed_size_frame(&cfg, &fb, 0, &info) {
                        let _ = fr.write(&mut FailingSink::new(which as usize / 2 % 2, Flavour::Full));
                    }
                }
            }
        }
    });
}

/// A whole (small) stream whose write the sink refuses at its `k`-th operation, made on the calling
/// thread: the STREAMINFO of that stream differs from every stream of the universe (rate, width, MD5),
/// so whatever the refused write leaves behind shows in the next serialisation if it reaches it.
pub fn refused_stream_write(k: usize, minimal: bool) {
    use crate::bitmodel::{FailingSink, Flavour};
    thread_local! {
        // encoded once per thread (single-thread mode); the refused write is what is repeated
        static OTHER: std::cell::RefCell<Option<Stream>> = const { std::cell::RefCell::new(None) };
    }
    let _ = panicx::catch(|| {
        OTHER.with(|o| {
            let mut o = o.borrow_mut();
            if o.is_none() {
                let samples: Vec<i32> = (0..40).map(|t| (t * 37 % 211) - 100).collect();
                let mut e = config::Encoder::default();
                e.multithread = false;
                if let Ok(cfg) = e.into_verified() {
                    *o = flacenc::encode_with_fixed_block_size(&cfg, MemSource::from_samples(&samples, 1, 12, 7777), 32).ok();
                }
            }
            if let Some(s) = o.as_ref() {
                let _ = s.write(&mut FailingSink::new(k, if minimal { Flavour::Minimal } else { Flavour::Full }));
            }
        })
    });
}

/// The stream serialised through the 64-bit word sink and through a user sink that implements only the
/// required operations; both as bytes.
pub fn stream_bytes_other_sinks(s: &Stream) -> Result<(Vec<u8>, Vec<u8>), EncFail> {
    use flacenc::bitsink::MemSink;
    match panicx::catch(|| {
        let mut w = MemSink::<u64>::new();
        s.write(&mut w).map_err(|e| format!("{e:?}"))?;
        let mut wb = vec![0u8; (w.len() + 7) / 8];
        w.write_to_byte_slice(&mut wb);
        let mut m = crate::bitmodel::ModelSink::default();
        s.write(&mut m).map_err(|e| format!("{e:?}"))?;
        Ok::<_, String>((wb, crate::bitmodel::bytes_of_bits(&m.bits)))
    }) {
        Err(p) => Err(EncFail::Panic(p)),
        Ok(Err(e)) => Err(EncFail::Error(format!("write: {e}"))),
        Ok(Ok(b)) => Ok(b),
    }
}
