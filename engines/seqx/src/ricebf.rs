//! Brute-force optimum of partitioned Rice coding over the encoder's search space:
//! partition orders o with 2^o | n and n >> o >= max(64, predictor order), o <= 15;
//! per partition the best parameter p in 0..=cap. All arithmetic in u64 (no saturation).

#[inline]
pub fn zigzag(e: i64) -> u64 {
    if e >= 0 {
        (e as u64) << 1
    } else {
        (((-(e + 1)) as u64) << 1) | 1
    }
}

/// Admissible partition orders for block size `n` and predictor order `order`.
pub fn admissible_orders(n: usize, order: usize) -> Vec<u32> {
    let minpart = order.max(64);
    let mut v = Vec::new();
    for o in 0..=15u32 {
        if n % (1usize << o) == 0 && (n >> o) >= minpart {
            v.push(o);
        }
    }
    v
}

/// Exact bit count of the residual section (6 header bits + 4 per partition + codes) for given parameters.
pub fn coded_bits(residuals: &[i64], n: usize, order: usize, part_order: u32, params: &[u8]) -> u64 {
    let plen = n >> part_order;
    let mut bits = 6u64;
    let mut idx = 0usize;
    for (p, &k) in params.iter().enumerate() {
        let count = if p == 0 { plen - order } else { plen };
        bits += 4;
        for &e in &residuals[idx..idx + count] {
            bits += (zigzag(e) >> k) + 1 + k as u64;
        }
        idx += count;
    }
    bits
}

pub struct Optimum {
    pub bits: u64,
    pub order: u32,
    /// minimum per admissible order
    pub per_order: Vec<(u32, u64)>,
}

/// `residuals` excludes the `order` warm-up positions (length n - order).
pub fn optimum(residuals: &[i64], n: usize, order: usize, cap: u8) -> Option<Optimum> {
    let orders = admissible_orders(n, order);
    if orders.is_empty() {
        return None;
    }
    let finest = *orders.last().unwrap();
    let nparts = 1usize << finest;
    let plen = n >> finest;
    let np = cap as usize + 1;
    // cost[part][p] = sum(zigzag >> p) + (p+1) * count
    let mut cost = vec![0u64; nparts * np];
    let mut idx = 0usize;
    for part in 0..nparts {
        let count = if part == 0 { plen - order } else { plen };
        for &e in &residuals[idx..idx + count] {
            let z = zigzag(e);
            for p in 0..np {
                cost[part * np + p] += (z >> p) + 1 + p as u64;
            }
        }
        idx += count;
    }
    let mut per_order = Vec::new();
    let mut cur = cost;
    let mut cur_parts = nparts;
    let mut o = finest;
    loop {
        if orders.contains(&o) {
            let mut total = 6u64;
            for part in 0..cur_parts {
                let m = (0..np).map(|p| cur[part * np + p]).min().unwrap();
                total += 4 + m;
            }
            per_order.push((o, total));
        }
        if o == 0 {
            break;
        }
        let mut next = vec![0u64; (cur_parts / 2) * np];
        for part in 0..cur_parts / 2 {
            for p in 0..np {
                next[part * np + p] = cur[2 * part * np + p] + cur[(2 * part + 1) * np + p];
            }
        }
        cur = next;
        cur_parts /= 2;
        o -= 1;
    }
    let (order_best, bits) = per_order.iter().copied().min_by_key(|x| x.1).map(|(o, b)| (o, b)).unwrap();
    Some(Optimum { bits, order: order_best, per_order })
}
