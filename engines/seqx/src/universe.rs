//! The finite universe of (input, configuration) cases: coordinates, domains, base points,
//! deviation-bounded enumeration U_d and dense groups.
use crate::atoms;
use serde::{Deserialize, Serialize};
use serde_json::Value;

pub const RATES: [u32; 19] = [
    1, 7, 1000, 8000, 9000, 12340, 12345, 16000, 22050, 24000, 32000, 44100, 48000, 65535, 65536, 65540,
    88200, 95999, 96000,
];
pub const BLOCK_SIZES: [u32; 19] = [
    32, 33, 63, 64, 65, 128, 191, 192, 193, 255, 256, 257, 576, 1000, 1152, 4096, 4608, 16384, 32767,
];
pub const BPS: [u8; 5] = [8, 12, 16, 20, 24];
/// Symbolic tails: value >= 0 literal, -1 = bs/2, -2 = bs-1.
pub const TAILS: [i32; 9] = [0, 1, 2, 15, 16, 17, 31, -1, -2];
pub const WORKERS: [u8; 4] = [0, 1, 2, 3];
pub const ORDER_SELS: [u8; 5] = [0, 1, 16, 32, 64];
pub const LPC_ORDERS: [u8; 6] = [1, 2, 8, 10, 16, 24];
pub const PRECISIONS: [u8; 5] = [1, 2, 7, 12, 15];
pub const WINDOWS: [f32; 7] = [-1.0, 0.0, 0.1, 0.4, 1.0, 0.01, 0.001]; // -1 = Rectangle; tiny alphas: ill-conditioned LPC
pub const MAX_PARAMS: [u8; 6] = [0, 1, 4, 8, 13, 14];
pub const MAE_STEPS: [u8; 3] = [0, 1, 2];

#[derive(Clone, Debug, Serialize, Deserialize, PartialEq)]
pub struct Cfg {
    /// 0 = None (worker count then comes from FLACENC_WORKERS, pinned to 2 by the harness)
    pub workers: u8,
    pub ls: bool,
    pub rs: bool,
    pub ms: bool,
    pub use_constant: bool,
    pub use_fixed: bool,
    pub use_lpc: bool,
    pub fixed_max_order: u8,
    /// 0 = BitCount, n = ApproxEnt{partitions: n}
    pub order_sel: u8,
    pub lpc_order: u8,
    pub precision: u8,
    /// < 0 = Rectangle, otherwise Tukey{alpha}
    pub window: f32,
    pub max_param: u8,
    #[serde(default)]
    pub direct_mse: bool,
    #[serde(default)]
    pub mae_steps: u8,
    /// when set, `config.block_size` differs from the block size passed to the encode call (the
    /// argument overrides the configuration; the output must not depend on it)
    #[serde(default)]
    pub cfg_bs_mismatch: bool,
}

impl Default for Cfg {
    fn default() -> Self {
        Self {
            workers: 0,
            ls: true,
            rs: true,
            ms: true,
            use_constant: true,
            use_fixed: true,
            use_lpc: true,
            fixed_max_order: 4,
            order_sel: 16,
            lpc_order: 10,
            precision: 15,
            window: 0.4,
            max_param: 14,
            direct_mse: false,
            mae_steps: 0,
            cfg_bs_mismatch: false,
        }
    }
}

#[derive(Clone, Debug, Serialize, Deserialize, PartialEq)]
pub struct Input {
    pub ch: u8,
    pub bps: u8,
    pub rate: u32,
    pub bs: u32,
    /// number of full blocks
    pub full: u32,
    /// length of the final short block (0 = none)
    pub tail: u32,
    /// atom of block 0..3
    pub atoms: [u8; 4],
    pub rel: u8,
    /// 0 = MemSource (length hint), 1 = integer source without hint, 2 = LE-byte source without hint,
    /// 3 / 4 = integer source whose length hint is rounded up / down to whole blocks, 5 = integer source that
    /// issues an empty fill before every block
    pub delivery: u8,
    #[serde(default)]
    pub seed: u64,
}

impl Input {
    pub fn len(&self) -> usize {
        self.full as usize * self.bs as usize + self.tail as usize
    }
    pub fn nblocks(&self) -> usize {
        self.full as usize + usize::from(self.tail > 0)
    }
    /// Interleaved samples.
    pub fn samples(&self) -> Vec<i32> {
        let ch = self.ch as usize;
        let mut out = Vec::with_capacity(self.len() * ch);
        for b in 0..self.nblocks() {
            let n = if b < self.full as usize { self.bs as usize } else { self.tail as usize };
            let chans = atoms::block_channels(
                self.atoms[b.min(3)] as usize,
                self.rel as usize,
                self.bps as u32,
                ch,
                n,
                b,
                self.seed,
            );
            for t in 0..n {
                for c in chans.iter() {
                    out.push(c[t]);
                }
            }
        }
        out
    }
}

#[derive(Clone, Debug, Serialize, Deserialize, PartialEq)]
pub struct Case {
    pub input: Input,
    pub cfg: Cfg,
}

impl Case {
    pub fn json(&self) -> Value {
        serde_json::to_value(self).unwrap()
    }
    pub fn id(&self) -> u64 {
        fnv(&serde_json::to_string(self).unwrap())
    }
    /// Rough cost, used to keep the lightest failing case of a class.
    pub fn weight(&self) -> u64 {
        (self.input.len() as u64 + 1) * self.input.ch as u64
    }
}

pub fn fnv(s: &str) -> u64 {
    let mut h: u64 = 0xcbf29ce484222325;
    for b in s.bytes() {
        h ^= b as u64;
        h = h.wrapping_mul(0x100000001b3);
    }
    h
}

// ------------------------------------------------------------------------------------------------
// Coordinates

pub const N_COORDS_BASE: usize = 26;
pub const N_COORDS_EXP: usize = 28;

pub const COORD_NAMES: [&str; N_COORDS_EXP] = [
    "ch", "bps", "rate", "bs", "full", "tail", "atom0", "atom1", "atom2", "atom3", "rel", "delivery",
    "workers", "ls", "rs", "ms", "use_constant", "use_fixed", "use_lpc", "fixed_max_order", "order_sel",
    "lpc_order", "precision", "window", "max_param", "cfg_bs", "direct_mse", "mae_steps",
];

pub fn domain_size(c: usize) -> usize {
    match c {
        0 => 8,
        1 => BPS.len(),
        2 => RATES.len(),
        3 => BLOCK_SIZES.len(),
        4 => 4,
        5 => TAILS.len(),
        6..=9 => atoms::N_ATOMS,
        10 => atoms::N_RELS,
        11 => 6,
        12 => WORKERS.len(),
        13..=18 => 2,
        19 => 5,
        20 => ORDER_SELS.len(),
        21 => LPC_ORDERS.len(),
        22 => PRECISIONS.len(),
        23 => WINDOWS.len(),
        24 => MAX_PARAMS.len(),
        25 => 2,
        26 => 2,
        27 => MAE_STEPS.len(),
        _ => unreachable!(),
    }
}

/// Index vector over the coordinate domains.
pub type Point = [u8; N_COORDS_EXP];

pub fn decode(p: &Point) -> Case {
    let bs = BLOCK_SIZES[p[3] as usize];
    let tail_sym = TAILS[p[5] as usize];
    let tail = match tail_sym {
        -1 => bs / 2,
        -2 => bs - 1,
        x => (x as u32).min(bs - 1),
    };
    Case {
        input: Input {
            ch: p[0] + 1,
            bps: BPS[p[1] as usize],
            rate: RATES[p[2] as usize],
            bs,
            full: p[4] as u32,
            tail,
            atoms: [p[6], p[7], p[8], p[9]],
            rel: p[10],
            delivery: p[11],
            seed: 0,
        },
        cfg: Cfg {
            workers: WORKERS[p[12] as usize],
            ls: p[13] != 0,
            rs: p[14] != 0,
            ms: p[15] != 0,
            use_constant: p[16] != 0,
            use_fixed: p[17] != 0,
            use_lpc: p[18] != 0,
            fixed_max_order: p[19],
            order_sel: ORDER_SELS[p[20] as usize],
            lpc_order: LPC_ORDERS[p[21] as usize],
            precision: PRECISIONS[p[22] as usize],
            window: WINDOWS[p[23] as usize],
            max_param: MAX_PARAMS[p[24] as usize],
            cfg_bs_mismatch: p[25] != 0,
            direct_mse: p[26] != 0,
            mae_steps: MAE_STEPS[p[27] as usize],
        },
    }
}

fn idx<T: PartialEq + std::fmt::Debug>(dom: &[T], v: T) -> u8 {
    dom.iter().position(|x| *x == v).unwrap_or_else(|| panic!("{v:?} not in domain")) as u8
}

#[allow(clippy::too_many_arguments)]
fn base(ch: u8, bps: u8, rate: u32, bs: u32, tail: i32, atoms: [u8; 4], rel: u8) -> Point {
    let mut p = [0u8; N_COORDS_EXP];
    p[0] = ch - 1;
    p[1] = idx(&BPS, bps);
    p[2] = idx(&RATES, rate);
    p[3] = idx(&BLOCK_SIZES, bs);
    p[4] = 2;
    p[5] = idx(&TAILS, tail);
    p[6..10].copy_from_slice(&atoms);
    p[10] = rel;
    p[11] = 0;
    p[12] = 0; // workers None
    for c in 13..=18 {
        p[c] = 1;
    }
    p[19] = 4;
    p[20] = idx(&ORDER_SELS, 16);
    p[21] = idx(&LPC_ORDERS, 10);
    p[22] = idx(&PRECISIONS, 15);
    p[23] = 3; // Tukey 0.4
    p[24] = idx(&MAX_PARAMS, 14);
    p[25] = 0;
    p[26] = 0;
    p[27] = 0;
    p
}

/// The six base points (DESIGN 2.3). Atoms per block differ so that consecutive frames differ.
pub fn base_points() -> Vec<Point> {
    vec![
        // mono 8-bit
        base(1, 8, 8000, 64, 17, [26, 20, 0, 13], 0),
        // stereo 16-bit, default config
        base(2, 16, 44100, 192, 31, [26, 13, 23, 20], 4),
        // stereo 24-bit loud
        base(2, 24, 96000, 64, 15, [22, 21, 4, 24], 0),
        // 3-ch 12-bit
        base(3, 12, 12345, 192, 1, [13, 26, 9, 18], 0),
        // 8-ch 20-bit
        base(8, 20, 48000, 64, 2, [26, 16, 21, 10], 0),
        // stereo 24-bit inverted
        base(2, 24, 65540, 192, 16, [13, 22, 26, 17], 2),
    ]
}

/// Large block sizes (index into BLOCK_SIZES) are restricted to single deviations (DESIGN 2.3).
pub fn is_large_bs_index(i: u8) -> bool {
    BLOCK_SIZES[i as usize] >= 4096
}

/// One shard of U_d: a base point plus an ordered set of coordinates that deviate.
#[derive(Clone, Debug)]
pub struct Shard {
    pub base: usize,
    pub coords: Vec<usize>,
}

pub struct Universe {
    pub bases: Vec<Point>,
    pub ncoords: usize,
    pub shards: Vec<Shard>,
    pub d: usize,
    /// when set, pairs/triples that involve a large block size are dropped
    pub restrict_large: bool,
}

impl Universe {
    pub fn new(d: usize, experimental: bool, restrict_large: bool) -> Self {
        let bases = base_points();
        let ncoords = if experimental { N_COORDS_EXP } else { N_COORDS_BASE };
        let mut shards = Vec::new();
        for b in 0..bases.len() {
            let mut cur = Vec::new();
            Self::subsets(b, 0, ncoords, d, &mut cur, &mut shards);
        }
        Self { bases, ncoords, shards, d, restrict_large }
    }

    fn subsets(b: usize, from: usize, n: usize, d: usize, cur: &mut Vec<usize>, out: &mut Vec<Shard>) {
        out.push(Shard { base: b, coords: cur.clone() });
        if cur.len() == d {
            return;
        }
        for c in from..n {
            cur.push(c);
            Self::subsets(b, c + 1, n, d, cur, out);
            cur.pop();
        }
    }

    /// Calls `f` for every point of the shard (each deviating coordinate takes every non-base value).
    pub fn for_each_in_shard<F: FnMut(&Point)>(&self, s: &Shard, mut f: F) {
        let basep = self.bases[s.base];
        let k = s.coords.len();
        if k == 0 {
            f(&basep);
            return;
        }
        let mut ctr = vec![0usize; k];
        'outer: loop {
            // build the point; counters skip the base value
            let mut p = basep;
            let mut skip = false;
            for (j, &c) in s.coords.iter().enumerate() {
                let bv = basep[c] as usize;
                let v = if ctr[j] >= bv { ctr[j] + 1 } else { ctr[j] };
                p[c] = v as u8;
            }
            if self.restrict_large && k >= 2 && is_large_bs_index(p[3]) {
                skip = true;
            }
            // atoms of blocks that do not exist are not coordinates of the case: skip duplicates
            if !skip {
                let nblocks = p[4] as usize + usize::from(TAILS[p[5] as usize] != 0);
                for (j, &c) in s.coords.iter().enumerate() {
                    let _ = j;
                    if (6..=9).contains(&c) && c - 6 >= nblocks.max(1) {
                        skip = true;
                    }
                }
            }
            if !skip {
                f(&p);
            }
            // increment
            let mut j = 0;
            loop {
                ctr[j] += 1;
                if ctr[j] < domain_size(s.coords[j]) - 1 {
                    break;
                }
                ctr[j] = 0;
                j += 1;
                if j == k {
                    break 'outer;
                }
            }
        }
    }

    pub fn describe(&self) -> String {
        format!(
            "U_{}: every case differing from one of {} base points in at most {} of {} coordinates, each such coordinate over its whole domain{}",
            self.d,
            self.bases.len(),
            self.d,
            self.ncoords,
            if self.restrict_large { " (block sizes >= 4096 only as single deviations)" } else { "" }
        )
    }
}

/// Name=value labels of the coordinates of `p` that differ from base point `b` (for by_dimension).
pub fn deviation_labels(p: &Point, b: &Point, ncoords: usize) -> Vec<String> {
    let mut v = Vec::new();
    for c in 0..ncoords {
        if p[c] != b[c] {
            v.push(format!("{}#{}", COORD_NAMES[c], p[c]));
        }
    }
    v
}
