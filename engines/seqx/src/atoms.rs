//! The finite signal alphabet. Every atom is a deterministic function of
//! (atom id, bits per sample, length, channel, block index, seed); all values lie inside the width.

pub const N_ATOMS: usize = 31;
/// Atoms beyond the universe's alphabet, used by dense sweeps only: 31 = uniform noise of amplitude
/// `seed`, 32 = 128 silent samples followed by such noise, 33 = a full-scale alternating stretch in a smooth
/// block, 34 / 35 = a block that opens with 8 / 3 samples alternating near the extremes and is quiet afterwards.
pub const N_ATOMS_EXT: usize = 36;

pub const ATOM_NAMES: [&str; N_ATOMS] = [
    "silence", "dc_max", "dc_min", "dc_one", "alt_maxmin", "alt_minmax", "impulse_first",
    "impulse_mid", "impulse_last", "step", "wrap_ramp", "square64", "sine3.7", "sine100",
    "poly1", "poly2", "poly3", "poly4", "resonator", "noise_lsb", "noise_half", "noise_m2",
    "noise_full", "heavy_tail", "gated_a", "gated_b", "sine_noise", "square7", "gated16", "gated24", "quiet_then_loud",
];

/// Minimal LCG (Knuth MMIX constants); a fixed seed makes each noise atom one particular signal.
#[derive(Clone)]
pub struct Lcg(pub u64);
impl Lcg {
    pub fn new(seed: u64) -> Self {
        Self(seed.wrapping_mul(0x9E37_79B9_7F4A_7C15).wrapping_add(0x1234_5678_9ABC_DEF1))
    }
    #[inline]
    pub fn next(&mut self) -> u64 {
        self.0 = self.0.wrapping_mul(6364136223846793005).wrapping_add(1442695040888963407);
        self.0 >> 16
    }
    /// Uniform in [-amp, amp].
    #[inline]
    pub fn sym(&mut self, amp: i64) -> i64 {
        if amp <= 0 {
            return 0;
        }
        (self.next() % (2 * amp as u64 + 1)) as i64 - amp
    }
}

#[inline]
pub fn smax(bps: u32) -> i64 {
    (1i64 << (bps - 1)) - 1
}
#[inline]
pub fn smin(bps: u32) -> i64 {
    -(1i64 << (bps - 1))
}
#[inline]
pub fn clamp(v: i64, bps: u32) -> i32 {
    v.clamp(smin(bps), smax(bps)) as i32
}

/// One block (`n` samples) of one channel.
pub fn atom(id: usize, bps: u32, n: usize, ch: usize, block: usize, seed: u64) -> Vec<i32> {
    let mx = smax(bps);
    let mn = smin(bps);
    let mut rng = Lcg::new(seed ^ ((id as u64) << 32) ^ ((ch as u64) << 16) ^ (block as u64));
    let mut v = Vec::with_capacity(n);
    let nf = n.max(1) as f64;
    match id {
        0 => v.resize(n, 0),
        1 => v.resize(n, mx as i32),
        2 => v.resize(n, mn as i32),
        3 => v.resize(n, 1),
        4 => (0..n).for_each(|t| v.push(if t % 2 == 0 { mx } else { mn } as i32)),
        5 => (0..n).for_each(|t| v.push(if t % 2 == 0 { mn } else { mx } as i32)),
        6 => (0..n).for_each(|t| v.push(if t == 0 { mx } else { 0 } as i32)),
        7 => (0..n).for_each(|t| v.push(if t == n / 2 { mn } else { 0 } as i32)),
        8 => (0..n).for_each(|t| v.push(if t + 1 == n { mx } else { 0 } as i32)),
        9 => (0..n).for_each(|t| v.push(if t < n / 2 { mn / 2 } else { mx } as i32)),
        10 => {
            // wrapping ramp: step chosen so that the ramp wraps a few times per block
            let span = (mx - mn + 1) as i64;
            let step = (span / 37).max(1);
            (0..n).for_each(|t| v.push((mn + ((t as i64 * step) % span)) as i32));
        }
        11 => (0..n).for_each(|t| v.push(if (t / 32) % 2 == 0 { mx } else { mn } as i32)),
        12 => (0..n).for_each(|t| {
            let x = (2.0 * std::f64::consts::PI * (t as f64) / 3.7 + ch as f64).sin() * mx as f64;
            v.push(clamp(x.round() as i64, bps))
        }),
        13 => (0..n).for_each(|t| {
            let x = (2.0 * std::f64::consts::PI * (t as f64) / 100.0 + ch as f64).sin() * mx as f64;
            v.push(clamp(x.round() as i64, bps))
        }),
        14..=17 => {
            // polynomial of degree d reaching full scale at the block end (order-d difference is constant,
            // lower-order differences grow towards the i32 edge of the widest channel)
            let d = (id - 13) as i32;
            (0..n).for_each(|t| {
                let x = (t as f64 / nf).powi(d) * (mx as f64 - mn as f64) + mn as f64;
                v.push(clamp(x.round() as i64, bps))
            });
        }
        18 => {
            // two-pole resonator close to the unit circle
            let r = 0.9995f64;
            let th = 0.05f64 + 0.01 * ch as f64;
            let (a1, a2) = (2.0 * r * th.cos(), -r * r);
            let (mut y1, mut y2) = (0.0f64, 0.0f64);
            let amp = mx as f64 * 0.02;
            (0..n).for_each(|t| {
                let x = if t == 0 { amp } else { 0.0 } + rng.sym(1) as f64 * 0.5;
                let y = a1 * y1 + a2 * y2 + x;
                y2 = y1;
                y1 = y;
                v.push(clamp(y.round() as i64, bps))
            });
        }
        19 => (0..n).for_each(|_| v.push(clamp(rng.sym(1), bps))),
        20 => (0..n).for_each(|_| v.push(clamp(rng.sym(1i64 << (bps / 2)), bps))),
        21 => (0..n).for_each(|_| v.push(clamp(rng.sym(1i64 << (bps - 2)), bps))),
        22 => (0..n).for_each(|_| v.push(clamp(rng.sym(mx + 1), bps))),
        23 => (0..n).for_each(|t| {
            v.push(if t % 61 == 17 { if (t / 61) % 2 == 0 { mx } else { mn } } else { 0 } as i32)
        }),
        24 | 25 => {
            let phase = id - 24;
            (0..n).for_each(|t| {
                let on = ((t / 64) + phase) % 2 == 0;
                let x = rng.sym(mx + 1);
                v.push(if on { clamp(x, bps) } else { 0 })
            });
        }
        26 => (0..n).for_each(|t| {
            let x = (2.0 * std::f64::consts::PI * (t as f64) / 36.0 + 0.3 * ch as f64).sin()
                * mx as f64
                * 0.4
                + rng.sym((mx / 25).max(1)) as f64;
            v.push(clamp(x.round() as i64, bps))
        }),
        27 => (0..n).for_each(|t| v.push(if (t % 7) < 4 { mx } else { mn } as i32)),
        28 | 29 => {
            // noise switched on and off every 16 / 24 samples: statistics change faster than the
            // smallest Rice partition the encoder is allowed to use
            let half = if id == 28 { 16 } else { 24 };
            (0..n).for_each(|t| {
                let on = (t / half) % 2 == 0;
                let x = rng.sym((mx + 1) / 4);
                v.push(if on { clamp(x, bps) } else { (t % 3) as i32 - 1 })
            });
        }
        30 => {
            // a quiet first partition followed by almost incompressible noise: a predicted subframe is
            // near break-even with verbatim and its first Rice parameter differs from all the others
            (0..n).for_each(|t| {
                let x = rng.sym(mx - mx / 16);
                v.push(if t < 128.min(n / 2) { 0 } else { clamp(x, bps) })
            });
        }
        31 | 32 => {
            // amplitude sweeps (the case's `seed` is the amplitude): near break-even content
            let amp = (seed as i64).clamp(1, mx);
            let mut r2 = Lcg::new(0xA11CE ^ ((ch as u64) << 16) ^ (block as u64));
            (0..n).for_each(|t| {
                let x = r2.sym(amp);
                v.push(if id == 32 && t < 128.min(n / 2) { 0 } else { clamp(x, bps) })
            });
        }
        33 => {
            // one 64-sample stretch alternating between the extremes inside an otherwise smooth block (a
            // slow half-scale sine, for which a predictor of order >= 1 is far better than order 0): the
            // prediction error of the stretch is wider than the samples and needs a Rice parameter of
            // bps or bps + 1, while the block as a whole still beats verbatim
            (0..n).for_each(|t| {
                let loud = (64..128).contains(&t);
                let smooth = ((2.0 * std::f64::consts::PI * (t + 17 * block) as f64 / 211.0).sin() * mx as f64 * 0.5).round() as i64;
                v.push(if loud { (if t % 2 == 0 { mx } else { mn }) as i32 } else { clamp(smooth, bps) })
            });
        }
        34 | 35 => {
            // the block maximum sits in the warm-up positions of a predictor and the rest is three orders of
            // magnitude quieter (two slow sines plus LSB noise, well predicted by LPC): every later prediction
            // still multiplies the loud samples by the coefficients
            let head = if id == 34 { 8 } else { 3 };
            let q = (mx / 8192).max(3) as f64;
            (0..n).for_each(|t| {
                if t < head.min(n / 2) {
                    v.push(if t % 2 == 0 { (mx - mx / 16) as i32 } else { (mn + mx / 16) as i32 })
                } else {
                    let tf = (t + 5 * block) as f64;
                    let x = (tf * 1.9).sin() * q * 0.66 + (tf * 0.7).sin() * q * 0.33;
                    v.push(clamp(x.round() as i64 + rng.sym(1), bps))
                }
            });
        }
        _ => panic!("unknown atom {id}"),
    }
    debug_assert_eq!(v.len(), n);
    v
}

pub const N_RELS: usize = 6;
pub const REL_NAMES: [&str; N_RELS] = ["indep", "identical", "inverted", "maxmin", "plus_noise", "parity"];

/// Builds the per-channel blocks for one block of a multichannel signal.
pub fn block_channels(
    atom_id: usize,
    rel: usize,
    bps: u32,
    channels: usize,
    n: usize,
    block: usize,
    seed: u64,
) -> Vec<Vec<i32>> {
    let mut out: Vec<Vec<i32>> = Vec::with_capacity(channels);
    for c in 0..channels {
        let a = if atom_id >= N_ATOMS { atom_id } else if rel == 0 || c >= 2 { (atom_id + 5 * c) % N_ATOMS } else { atom_id };
        out.push(atom(a, bps, n, c, block, seed));
    }
    if channels >= 2 {
        let l = out[0].clone();
        let mut rng = Lcg::new(seed ^ 0xABCD ^ (block as u64));
        match rel {
            0 => {}
            1 => out[1] = l,
            2 => out[1] = l.iter().map(|&x| (-(x as i64) - 1) as i32).collect(),
            3 => {
                out[0] = vec![smax(bps) as i32; n];
                out[1] = vec![smin(bps) as i32; n];
            }
            4 => out[1] = l.iter().map(|&x| clamp(x as i64 + rng.sym(2), bps)).collect(),
            5 => {
                out[1] = l
                    .iter()
                    .enumerate()
                    .map(|(t, &x)| clamp(x as i64 + ((t as i64 * 7) % 5) - 2, bps))
                    .collect()
            }
            _ => panic!("unknown relation {rel}"),
        }
    }
    out
}
