//! Reference FLAC decoder and validator written from RFC 9639. Shares no code with the subject.
//!
//! `parse()` decodes a whole stream and returns `StreamFacts`: decoded audio, every header field,
//! byte spans, per-subframe facts (type, order, Rice parameters, residuals) and a list of
//! `issues` - violated format clauses, each tagged `clause: detail`. Hard failures (the stream
//! cannot be followed any further) are returned as `Err`.

#[derive(Clone, Debug, PartialEq, Eq)]
pub enum SubKind {
    Constant,
    Verbatim,
    Fixed(u8),
    Lpc(u8),
}

#[derive(Clone, Debug)]
pub struct SubFacts {
    pub kind: SubKind,
    /// effective width of this subframe (stream width + side bit - wasted bits)
    pub bps_eff: u32,
    pub wasted: u32,
    pub precision: u32,
    pub shift: i32,
    pub coefs: Vec<i32>,
    pub res_method: u8,
    pub part_order: u32,
    pub rice_params: Vec<u8>,
    pub escaped: Vec<bool>,
    /// residuals without the warm-up positions
    pub residuals: Vec<i64>,
    /// total bits of the subframe
    pub bits: usize,
    /// bits of the residual section (method + order + partitions)
    pub residual_bits: usize,
    /// the subframe's own (pre-stereo) samples
    pub samples: Vec<i64>,
}

#[derive(Clone, Debug)]
pub struct FrameFacts {
    pub start: usize,
    pub end: usize,
    pub variable: bool,
    pub bs_code: u8,
    pub rate_code: u8,
    pub ch_code: u8,
    pub size_code: u8,
    pub number: u64,
    pub number_len: usize,
    pub block_size: usize,
    /// rate stated by the header (None = take from STREAMINFO)
    pub rate: Option<u32>,
    pub bps: Option<u32>,
    pub channels: usize,
    pub header_bits: usize,
    pub pad_bits: usize,
    pub subframes: Vec<SubFacts>,
}

#[derive(Clone, Debug, Default)]
pub struct InfoFacts {
    pub is_last: bool,
    pub min_bs: u32,
    pub max_bs: u32,
    pub min_fs: u32,
    pub max_fs: u32,
    pub rate: u32,
    pub channels: u32,
    pub bps: u32,
    pub total: u64,
    pub md5: [u8; 16],
}

#[derive(Clone, Debug)]
pub struct StreamFacts {
    pub info: InfoFacts,
    /// (type, length) of metadata blocks after STREAMINFO
    pub extra_meta: Vec<(u8, usize)>,
    pub frames: Vec<FrameFacts>,
    /// decoded audio, interleaved
    pub samples: Vec<i32>,
    pub issues: Vec<String>,
}

impl StreamFacts {
    pub fn has_issue(&self, prefix: &str) -> bool {
        self.issues.iter().any(|s| s.starts_with(prefix))
    }
}

// ---------------------------------------------------------------------------------------------

struct Bits<'a> {
    d: &'a [u8],
    pos: usize, // in bits
}

impl<'a> Bits<'a> {
    fn new(d: &'a [u8], byte_pos: usize) -> Self {
        Self { d, pos: byte_pos * 8 }
    }
    #[inline]
    fn left(&self) -> usize {
        self.d.len() * 8 - self.pos
    }
    #[inline]
    fn bit(&mut self) -> Result<u32, String> {
        if self.pos >= self.d.len() * 8 {
            return Err("eof: unexpected end of data".into());
        }
        let b = (self.d[self.pos >> 3] >> (7 - (self.pos & 7))) & 1;
        self.pos += 1;
        Ok(b as u32)
    }
    fn read(&mut self, n: u32) -> Result<u64, String> {
        debug_assert!(n <= 64);
        if (n as usize) > self.left() {
            return Err("eof: unexpected end of data".into());
        }
        let mut v: u64 = 0;
        let mut n = n;
        while n > 0 {
            let byte = self.d[self.pos >> 3];
            let avail = 8 - (self.pos & 7) as u32;
            let take = avail.min(n);
            let shifted = (byte as u32 >> (avail - take)) & ((1u32 << take) - 1);
            v = (v << take) | shifted as u64;
            self.pos += take as usize;
            n -= take;
        }
        Ok(v)
    }
    fn read_signed(&mut self, n: u32) -> Result<i64, String> {
        if n == 0 {
            return Ok(0);
        }
        let v = self.read(n)?;
        if n == 64 {
            return Ok(v as i64);
        }
        let sign = 1u64 << (n - 1);
        Ok(if v & sign != 0 { v as i64 - (1i64 << n) } else { v as i64 })
    }
    fn unary(&mut self) -> Result<u64, String> {
        let mut q = 0u64;
        loop {
            // fast path over zero bytes
            if self.pos & 7 == 0 && self.pos + 8 <= self.d.len() * 8 && self.d[self.pos >> 3] == 0 {
                q += 8;
                self.pos += 8;
                continue;
            }
            if self.bit()? == 1 {
                return Ok(q);
            }
            q += 1;
        }
    }
}

pub fn crc8(data: &[u8]) -> u8 {
    let mut crc: u8 = 0;
    for &b in data {
        crc ^= b;
        for _ in 0..8 {
            crc = if crc & 0x80 != 0 { (crc << 1) ^ 0x07 } else { crc << 1 };
        }
    }
    crc
}

pub fn crc16(data: &[u8]) -> u16 {
    let mut crc: u16 = 0;
    for &b in data {
        crc ^= (b as u16) << 8;
        for _ in 0..8 {
            crc = if crc & 0x8000 != 0 { (crc << 1) ^ 0x8005 } else { crc << 1 };
        }
    }
    crc
}

/// Decodes the UTF-8-like coded number at `d[pos..]`: (value, bytes used, canonical?).
pub fn decode_number(d: &[u8], pos: usize) -> Result<(u64, usize, bool), String> {
    let b0 = *d.get(pos).ok_or("eof: coded number")?;
    let (extra, mut v): (usize, u64) = if b0 & 0x80 == 0 {
        (0, b0 as u64)
    } else if b0 & 0xE0 == 0xC0 {
        (1, (b0 & 0x1F) as u64)
    } else if b0 & 0xF0 == 0xE0 {
        (2, (b0 & 0x0F) as u64)
    } else if b0 & 0xF8 == 0xF0 {
        (3, (b0 & 0x07) as u64)
    } else if b0 & 0xFC == 0xF8 {
        (4, (b0 & 0x03) as u64)
    } else if b0 & 0xFE == 0xFC {
        (5, (b0 & 0x01) as u64)
    } else if b0 == 0xFE {
        (6, 0)
    } else {
        return Err(format!("frame.number_head: invalid leading byte {b0:#x}"));
    };
    for k in 0..extra {
        let b = *d.get(pos + 1 + k).ok_or("eof: coded number")?;
        if b & 0xC0 != 0x80 {
            return Err(format!("frame.number_cont: invalid continuation byte {b:#x}"));
        }
        v = (v << 6) | (b & 0x3F) as u64;
    }
    const MIN_FOR_LEN: [u64; 7] = [0, 1 << 7, 1 << 11, 1 << 16, 1 << 21, 1 << 26, 1 << 31];
    let canonical = v >= MIN_FOR_LEN[extra];
    Ok((v, extra + 1, canonical))
}

fn parse_residual(
    br: &mut Bits,
    n: usize,
    order: usize,
    issues: &mut Vec<String>,
    sf: &mut SubFacts,
) -> Result<(), String> {
    let start = br.pos;
    let method = br.read(2)? as u8;
    sf.res_method = method;
    let pbits = match method {
        0 => 4,
        1 => 5,
        _ => return Err(format!("res.method_reserved: residual coding method {method}")),
    };
    if method != 0 {
        issues.push("res.method5: 5-bit Rice parameters used".into());
    }
    let po = br.read(4)? as u32;
    sf.part_order = po;
    let nparts = 1usize << po;
    if n % nparts != 0 {
        return Err(format!("res.partition_divisibility: block size {n} not divisible by 2^{po}"));
    }
    let plen = n >> po;
    if plen < order {
        return Err(format!("res.first_partition: partition length {plen} shorter than predictor order {order}"));
    }
    if plen <= order {
        // RFC 9639 9.2.5: (block size >> partition order) MUST be larger than the predictor order
        issues.push(format!("res.first_partition: partition length {plen} not larger than predictor order {order}"));
    }
    sf.residuals.reserve(n - order);
    for p in 0..nparts {
        let param = br.read(pbits)? as u8;
        let count = if p == 0 { plen - order } else { plen };
        let esc = param as u32 == (1u32 << pbits) - 1;
        sf.rice_params.push(param);
        sf.escaped.push(esc);
        if esc {
            issues.push("res.param_escape: escaped (raw) partition".into());
            let w = br.read(5)? as u32;
            for _ in 0..count {
                sf.residuals.push(br.read_signed(w)?);
            }
        } else {
            for _ in 0..count {
                let q = br.unary()?;
                let r = br.read(param as u32)?;
                let u = q
                    .checked_shl(param as u32)
                    .filter(|x| (x >> param) == q)
                    .ok_or("res.residual_32bit: folded residual overflows 64 bits")?
                    | r;
                let v = ((u >> 1) as i64) ^ -((u & 1) as i64);
                if v <= -(1i64 << 31) || v >= (1i64 << 31) {
                    issues.push(format!("res.residual_32bit: residual {v} not representable in 32 bits"));
                }
                sf.residuals.push(v);
            }
        }
    }
    sf.residual_bits = br.pos - start;
    Ok(())
}

fn parse_subframe(br: &mut Bits, n: usize, bps: u32, issues: &mut Vec<String>) -> Result<SubFacts, String> {
    let start = br.pos;
    if br.read(1)? != 0 {
        return Err("sub.padbit: subframe padding bit is set".into());
    }
    let ty = br.read(6)? as u32;
    let wflag = br.read(1)?;
    let mut wasted = 0u32;
    if wflag == 1 {
        wasted = br.unary()? as u32 + 1;
        issues.push(format!("sub.wasted_bits: wasted-bits flag set (k={wasted})"));
    }
    if wasted >= bps {
        return Err(format!("sub.wasted_bits: {wasted} wasted bits for a {bps}-bit subframe"));
    }
    let w = bps - wasted;
    let mut sf = SubFacts {
        kind: SubKind::Constant,
        bps_eff: w,
        wasted,
        precision: 0,
        shift: 0,
        coefs: vec![],
        res_method: 0,
        part_order: 0,
        rice_params: vec![],
        escaped: vec![],
        residuals: vec![],
        bits: 0,
        residual_bits: 0,
        samples: Vec::with_capacity(n),
    };
    let lo = -(1i64 << (w - 1));
    let hi = (1i64 << (w - 1)) - 1;
    match ty {
        0 => {
            let v = br.read_signed(w)?;
            sf.samples.resize(n, v);
        }
        1 => {
            sf.kind = SubKind::Verbatim;
            for _ in 0..n {
                sf.samples.push(br.read_signed(w)?);
            }
        }
        8..=12 => {
            let order = (ty - 8) as usize;
            sf.kind = SubKind::Fixed(order as u8);
            if order > n {
                return Err(format!("sub.order_ge_blocksize: fixed order {order} with block size {n}"));
            }
            if order >= n {
                issues.push(format!("sub.order_ge_blocksize: fixed order {order} with block size {n}"));
            }
            for _ in 0..order {
                sf.samples.push(br.read_signed(w)?);
            }
            parse_residual(br, n, order, issues, &mut sf)?;
            let coefs: &[i64] = match order {
                0 => &[],
                1 => &[1],
                2 => &[2, -1],
                3 => &[3, -3, 1],
                _ => &[4, -6, 4, -1],
            };
            for t in order..n {
                let mut pred = 0i64;
                for (k, c) in coefs.iter().enumerate() {
                    pred = c.checked_mul(sf.samples[t - 1 - k]).and_then(|x| pred.checked_add(x)).ok_or("sub.sample_range: fixed-predictor synthesis overflows 64 bits (decoded signal diverges)")?;
                }
                let v = pred.checked_add(sf.residuals[t - order]).ok_or("sub.sample_range: fixed-predictor synthesis overflows 64 bits")?;
                if v < lo || v > hi {
                    issues.push(format!("sub.sample_range: reconstructed sample {v} outside {w} bits"));
                }
                // exact arithmetic as RFC 9639 defines the synthesis: no 32-bit wrap-around. (libFLAC
                // and claxon wrap; a stream that relies on that is flagged above and mis-decodes here.)
                sf.samples.push(v);
            }
        }
        32..=63 => {
            let order = (ty - 31) as usize;
            sf.kind = SubKind::Lpc(order as u8);
            if order > n {
                return Err(format!("sub.order_ge_blocksize: LPC order {order} with block size {n}"));
            }
            if order >= n {
                issues.push(format!("sub.order_ge_blocksize: LPC order {order} with block size {n}"));
            }
            for _ in 0..order {
                sf.samples.push(br.read_signed(w)?);
            }
            let pc = br.read(4)? as u32;
            if pc == 15 {
                return Err("sub.precision_code: invalid coefficient precision code 1111".into());
            }
            sf.precision = pc + 1;
            sf.shift = br.read_signed(5)? as i32;
            if sf.shift < 0 {
                return Err(format!("sub.shift_negative: LPC shift {}", sf.shift));
            }
            for _ in 0..order {
                sf.coefs.push(br.read_signed(sf.precision)? as i32);
            }
            parse_residual(br, n, order, issues, &mut sf)?;
            for t in order..n {
                let mut pred = 0i64;
                for (k, c) in sf.coefs.iter().enumerate() {
                    // a stream that does not decode to in-range samples can make the synthesis diverge
                    pred = (*c as i64)
                        .checked_mul(sf.samples[t - 1 - k])
                        .and_then(|x| pred.checked_add(x))
                        .ok_or_else(|| format!("sub.sample_range: LPC synthesis overflows 64 bits (decoded signal diverges) at t={t}, order {order}, precision {}, shift {}, coefs {:?}, residuals[..4] {:?}", sf.precision, sf.shift, sf.coefs, &sf.residuals[..sf.residuals.len().min(4)]))?;
                }
                let v = (pred >> sf.shift).checked_add(sf.residuals[t - order]).ok_or("sub.sample_range: LPC synthesis overflows 64 bits")?;
                if v < lo || v > hi {
                    issues.push(format!("sub.sample_range: reconstructed sample {v} outside {w} bits"));
                }
                // exact arithmetic as RFC 9639 defines the synthesis: no 32-bit wrap-around. (libFLAC
                // and claxon wrap; a stream that relies on that is flagged above and mis-decodes here.)
                sf.samples.push(v);
            }
        }
        _ => return Err(format!("sub.type_reserved: reserved subframe type {ty:#08b}")),
    }
    if let SubKind::Constant | SubKind::Verbatim = sf.kind {
        for &v in sf.samples.iter().take(1) {
            debug_assert!(v >= lo && v <= hi);
        }
    }
    if wasted > 0 {
        for v in sf.samples.iter_mut() {
            *v <<= wasted;
        }
    }
    sf.bits = br.pos - start;
    Ok(sf)
}

fn parse_frame(
    d: &[u8],
    pos: usize,
    info: &InfoFacts,
    issues: &mut Vec<String>,
) -> Result<(FrameFacts, Vec<Vec<i64>>), String> {
    let mut br = Bits::new(d, pos);
    let sync = br.read(14)?;
    if sync != 0x3FFE {
        return Err(format!("frame.sync: expected frame sync code at byte {pos}, found {sync:#x}"));
    }
    if br.read(1)? != 0 {
        return Err("frame.reserved: reserved bit after the sync code is set".into());
    }
    let variable = br.read(1)? == 1;
    let bs_code = br.read(4)? as u8;
    let rate_code = br.read(4)? as u8;
    let ch_code = br.read(4)? as u8;
    let size_code = br.read(3)? as u8;
    if br.read(1)? != 0 {
        return Err("frame.reserved: reserved bit after the sample-size code is set".into());
    }
    if bs_code == 0 {
        return Err("frame.bs_code_reserved: block-size code 0000".into());
    }
    if rate_code == 15 {
        return Err("frame.rate_code_invalid: sample-rate code 1111".into());
    }
    if ch_code > 10 {
        return Err(format!("frame.ch_code_reserved: channel code {ch_code}"));
    }
    if size_code == 3 {
        return Err("frame.size_code_reserved: sample-size code 011".into());
    }
    let (number, number_len, canonical) = decode_number(d, br.pos / 8)?;
    br.pos += number_len * 8;
    if !canonical {
        issues.push(format!("frame.number_noncanonical: {number} coded in {number_len} bytes"));
    }
    if !variable && number >= (1u64 << 31) {
        issues.push(format!("frame.number_range: frame number {number} >= 2^31"));
    }
    let block_size = match bs_code {
        1 => 192,
        2..=5 => 576usize << (bs_code - 2),
        6 => br.read(8)? as usize + 1,
        7 => br.read(16)? as usize + 1,
        _ => 256usize << (bs_code - 8),
    };
    let rate = match rate_code {
        0 => None,
        1 => Some(88200),
        2 => Some(176400),
        3 => Some(192000),
        4 => Some(8000),
        5 => Some(16000),
        6 => Some(22050),
        7 => Some(24000),
        8 => Some(32000),
        9 => Some(44100),
        10 => Some(48000),
        11 => Some(96000),
        12 => Some(br.read(8)? as u32 * 1000),
        13 => Some(br.read(16)? as u32),
        _ => Some(br.read(16)? as u32 * 10),
    };
    let bps = match size_code {
        0 => None,
        1 => Some(8),
        2 => Some(12),
        4 => Some(16),
        5 => Some(20),
        6 => Some(24),
        _ => Some(32),
    };
    let hdr_end = br.pos / 8;
    let c8 = br.read(8)? as u8;
    if crc8(&d[pos..hdr_end]) != c8 {
        return Err(format!("frame.crc8: header CRC mismatch at byte {pos}"));
    }
    let header_bits = br.pos - pos * 8;
    let channels = if ch_code < 8 { ch_code as usize + 1 } else { 2 };
    if let Some(r) = rate {
        if r != info.rate {
            issues.push(format!("frame.rate_mismatch: header says {r} Hz, STREAMINFO {}", info.rate));
        }
    }
    if let Some(b) = bps {
        if b != info.bps {
            issues.push(format!("frame.bps_mismatch: header says {b} bits, STREAMINFO {}", info.bps));
        }
    }
    if channels != info.channels as usize {
        issues.push(format!("frame.channels_mismatch: header says {channels}, STREAMINFO {}", info.channels));
    }
    if variable {
        issues.push("frame.blocking_strategy: variable-blocksize bit set".into());
    }
    let width = bps.unwrap_or(info.bps);
    let mut subframes = Vec::with_capacity(channels);
    for c in 0..channels {
        let side = match ch_code {
            8 => c == 1,
            9 => c == 0,
            10 => c == 1,
            _ => false,
        };
        let w = width + u32::from(side);
        subframes.push(parse_subframe(&mut br, block_size, w, issues)?);
    }
    let pad_bits = (8 - (br.pos & 7)) & 7;
    if pad_bits > 0 && br.read(pad_bits as u32)? != 0 {
        issues.push("frame.padding: non-zero padding bits".into());
    }
    let body_end = br.pos / 8;
    let c16 = br.read(16)? as u16;
    if crc16(&d[pos..body_end]) != c16 {
        return Err(format!("frame.crc16: frame CRC mismatch for the frame at byte {pos}"));
    }
    let end = br.pos / 8;
    // stereo reconstruction
    let mut chans: Vec<Vec<i64>> = subframes.iter().map(|s| s.samples.clone()).collect();
    match ch_code {
        8 => {
            for t in 0..block_size {
                chans[1][t] = chans[0][t] - chans[1][t];
            }
        }
        9 => {
            for t in 0..block_size {
                chans[0][t] += chans[1][t];
            }
        }
        10 => {
            for t in 0..block_size {
                let s = chans[1][t];
                let m = (chans[0][t] << 1) | (s & 1);
                chans[0][t] = (m + s) >> 1;
                chans[1][t] = (m - s) >> 1;
            }
        }
        _ => {}
    }
    let lo = -(1i64 << (width - 1));
    let hi = (1i64 << (width - 1)) - 1;
    for c in chans.iter() {
        for &v in c.iter() {
            if v < lo || v > hi {
                issues.push(format!("frame.sample_range: decoded sample {v} outside {width} bits"));
                break;
            }
        }
    }
    Ok((
        FrameFacts {
            start: pos,
            end,
            variable,
            bs_code,
            rate_code,
            ch_code,
            size_code,
            number,
            number_len,
            block_size,
            rate,
            bps,
            channels,
            header_bits,
            pad_bits,
            subframes,
        },
        chans,
    ))
}

/// Parses one frame that starts at byte 0 of `d` (for frames built outside a stream).
pub fn parse_single_frame(d: &[u8], info: &InfoFacts) -> Result<(FrameFacts, Vec<Vec<i64>>, Vec<String>), String> {
    let mut issues = Vec::new();
    let (ff, chans) = parse_frame(d, 0, info, &mut issues)?;
    Ok((ff, chans, issues))
}

/// Parses and decodes a whole stream.
pub fn parse(d: &[u8]) -> Result<StreamFacts, String> {
    let mut issues = Vec::new();
    if d.len() < 4 || &d[0..4] != b"fLaC" {
        return Err("marker: stream does not start with fLaC".into());
    }
    let mut pos = 4;
    let mut info = InfoFacts::default();
    let mut extra_meta = Vec::new();
    let mut first = true;
    loop {
        if pos + 4 > d.len() {
            return Err("eof: truncated metadata block header".into());
        }
        let h = d[pos];
        let is_last = h & 0x80 != 0;
        let ty = h & 0x7F;
        let len = ((d[pos + 1] as usize) << 16) | ((d[pos + 2] as usize) << 8) | d[pos + 3] as usize;
        if !first && h == 0xFF {
            return Err("meta.last_flag: the preceding metadata block is not flagged last but a frame follows".into());
        }
        if ty == 127 {
            return Err("meta.type_forbidden: metadata block type 127".into());
        }
        pos += 4;
        if pos + len > d.len() {
            return Err("eof: truncated metadata block".into());
        }
        if first {
            if ty != 0 {
                return Err(format!("streaminfo.first: first metadata block has type {ty}"));
            }
            if len != 34 {
                return Err(format!("streaminfo.len: STREAMINFO length {len}"));
            }
            let mut br = Bits::new(d, pos);
            info.is_last = is_last;
            info.min_bs = br.read(16)? as u32;
            info.max_bs = br.read(16)? as u32;
            info.min_fs = br.read(24)? as u32;
            info.max_fs = br.read(24)? as u32;
            info.rate = br.read(20)? as u32;
            info.channels = br.read(3)? as u32 + 1;
            info.bps = br.read(5)? as u32 + 1;
            info.total = br.read(36)?;
            info.md5.copy_from_slice(&d[pos + 18..pos + 34]);
            first = false;
        } else {
            if ty == 0 {
                issues.push("meta.second_streaminfo: more than one STREAMINFO block".into());
            }
            extra_meta.push((ty, len));
        }
        pos += len;
        if is_last {
            break;
        }
    }
    if info.bps < 4 {
        return Err(format!("sinfo.bps: {} bits per sample", info.bps));
    }
    let nch = info.channels as usize;
    let mut frames = Vec::new();
    let mut samples: Vec<i32> = Vec::new();
    while pos < d.len() {
        let (ff, chans) = parse_frame(d, pos, &info, &mut issues)?;
        pos = ff.end;
        if ff.channels == nch {
            let n = ff.block_size;
            samples.reserve(n * nch);
            for t in 0..n {
                for c in chans.iter() {
                    samples.push(c[t].clamp(i32::MIN as i64, i32::MAX as i64) as i32);
                }
            }
        } else {
            return Err("frame.channels_mismatch: frame channel count differs from STREAMINFO".into());
        }
        frames.push(ff);
    }
    // sequence clauses
    for (i, f) in frames.iter().enumerate() {
        if !f.variable && f.number != i as u64 {
            issues.push(format!("frame.number_sequence: frame {i} carries number {}", f.number));
        }
    }
    Ok(StreamFacts { info, extra_meta, frames, samples, issues })
}

/// Clauses of C02 that depend on the request: every frame but the last has exactly `block_size`.
pub fn check_block_sizes(f: &StreamFacts, block_size: usize, issues: &mut Vec<String>) {
    let n = f.frames.len();
    for (i, fr) in f.frames.iter().enumerate() {
        if i + 1 < n && fr.block_size != block_size {
            issues.push(format!(
                "frame.blocksize_nonfinal: frame {i} of {n} has {} samples, requested {block_size}",
                fr.block_size
            ));
        }
        if i + 1 == n && (fr.block_size > block_size || fr.block_size == 0) {
            issues.push(format!("frame.blocksize_final: final frame has {} samples, requested {block_size}", fr.block_size));
        }
    }
}

/// Clause tag = text before the first ':'.
pub fn clause(issue: &str) -> &str {
    issue.split(':').next().unwrap_or(issue)
}
