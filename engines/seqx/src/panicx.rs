//! Panic capture: a panic inside the subject is an *observation*, never a crash of the checker.
use std::cell::RefCell;
use std::panic::{self, AssertUnwindSafe};
use std::sync::Mutex;

#[derive(Clone, Debug)]
pub struct PanicRec {
    /// `file` of the panic location (path as rustc recorded it).
    pub file: String,
    pub line: u32,
    pub msg: String,
}

impl PanicRec {
    /// True when the panic location lies in the subject crate (`/repo/src`, or the scratch copy
    /// named by VERIF_SUBJECT_DIR during development runs).
    pub fn in_subject(&self) -> bool {
        let dir = subject_dir();
        // the engine's own files are recorded relative to the engine ("src/props/..."): a panic there
        // is a harness error, never an observation about the subject
        self.file.starts_with(&dir)
    }
    /// Location + message prefix without the line number (stable across unrelated edits).
    pub fn class(&self) -> String {
        let dir = subject_dir();
        let f = self.file.strip_prefix(dir.as_str()).unwrap_or_else(|| self.file.rsplit("/repo/").next().unwrap_or(&self.file));
        let mut m: String = self.msg.chars().filter(|c| !c.is_ascii_digit()).take(60).collect();
        m = m.replace('\n', " ");
        format!("panic@{}:{}", f, m.trim())
    }
    pub fn describe(&self) -> String {
        format!("{}:{}: {}", self.file, self.line, self.msg.chars().take(200).collect::<String>())
    }
}

/// Directory of the subject's sources, with a trailing slash.
pub fn subject_dir() -> String {
    let mut d = std::env::var("VERIF_SUBJECT_DIR").unwrap_or_else(|_| "/repo".to_string());
    if !d.ends_with('/') {
        d.push('/');
    }
    d
}

thread_local! {
    static LAST: RefCell<Option<PanicRec>> = const { RefCell::new(None) };
}

/// Panics raised on threads that are not harness threads (encoder worker threads).
pub static FOREIGN: Mutex<Vec<PanicRec>> = Mutex::new(Vec::new());

thread_local! {
    static IS_HARNESS: RefCell<bool> = const { RefCell::new(false) };
}

pub fn mark_harness_thread() {
    IS_HARNESS.with(|c| *c.borrow_mut() = true);
}

pub fn install() {
    panic::set_hook(Box::new(|info| {
        let (file, line) = info
            .location()
            .map(|l| (l.file().to_string(), l.line()))
            .unwrap_or_else(|| ("<unknown>".into(), 0));
        let msg = if let Some(s) = info.payload().downcast_ref::<&str>() {
            (*s).to_string()
        } else if let Some(s) = info.payload().downcast_ref::<String>() {
            s.clone()
        } else {
            "<non-string panic payload>".to_string()
        };
        let rec = PanicRec { file, line, msg };
        let harness = IS_HARNESS.with(|c| *c.borrow());
        if harness {
            LAST.with(|c| *c.borrow_mut() = Some(rec));
        } else if let Ok(mut g) = FOREIGN.lock() {
            if g.len() < 64 {
                g.push(rec);
            }
        }
    }));
}

/// Runs `f`, converting a panic into `Err(PanicRec)`.
pub fn catch<R>(f: impl FnOnce() -> R) -> Result<R, PanicRec> {
    LAST.with(|c| *c.borrow_mut() = None);
    match panic::catch_unwind(AssertUnwindSafe(f)) {
        Ok(r) => Ok(r),
        Err(_) => Err(LAST.with(|c| c.borrow_mut().take()).unwrap_or(PanicRec {
            file: "<unknown>".into(),
            line: 0,
            msg: "panic without hook record".into(),
        })),
    }
}
