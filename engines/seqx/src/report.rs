//! Result aggregation, parallel runner, watchdog and the JSON report consumed by `vcheck`.
use serde_json::{json, Map, Value};
use std::collections::{BTreeMap, HashMap, HashSet};
use std::sync::atomic::{AtomicBool, AtomicU64, AtomicUsize, Ordering};
use std::sync::{Arc, Mutex};
use std::time::{Duration, Instant};

#[derive(Clone, Debug)]
pub struct Viol {
    pub class: String,
    pub what: String,
    pub case: Value,
    pub weight: u64,
    pub count: u64,
    /// the observation is conclusive by itself (e.g. two encodes of one input gave different
    /// bytes): it is reported even if a single replay of the case does not show it again
    pub conclusive: bool,
}

/// Per-worker counters, merged into the report at the end of a run.
#[derive(Default)]
pub struct Local {
    pub evals: u64,
    pub nontrivial: HashSet<u64>,
    pub by_dim: HashMap<String, u64>,
    pub outcomes: HashMap<String, u64>,
    pub counters: HashMap<String, u64>,
    /// the case being executed (read by the watchdog when a case hangs)
    pub cur_case: Arc<Mutex<Option<crate::universe::Case>>>,
}

impl Local {
    #[inline]
    pub fn set_current(&self, c: &crate::universe::Case) {
        *self.cur_case.lock().unwrap() = Some(c.clone());
    }
    #[inline]
    pub fn dim(&mut self, k: &str) {
        if let Some(v) = self.by_dim.get_mut(k) {
            *v += 1;
        } else {
            self.by_dim.insert(k.to_string(), 1);
        }
    }
    #[inline]
    pub fn outcome(&mut self, k: &str) {
        if let Some(v) = self.outcomes.get_mut(k) {
            *v += 1;
        } else {
            self.outcomes.insert(k.to_string(), 1);
        }
    }
    #[inline]
    pub fn count(&mut self, k: &str, n: u64) {
        if let Some(v) = self.counters.get_mut(k) {
            *v += n;
        } else {
            self.counters.insert(k.to_string(), n);
        }
    }
}

pub struct Report {
    pub prop: String,
    pub tier: String,
    pub seed: u64,
    pub start: Instant,
    pub rule: Mutex<String>,
    pub evals: AtomicU64,
    pub nontrivial: Mutex<HashSet<u64>>,
    pub by_dim: Mutex<BTreeMap<String, u64>>,
    pub outcomes: Mutex<BTreeMap<String, u64>>,
    pub counters: Mutex<BTreeMap<String, u64>>,
    pub samples: Mutex<Vec<Value>>,
    pub viols: Mutex<BTreeMap<String, Viol>>,
    pub machinery: Mutex<Vec<String>>,
    pub caps: Mutex<Vec<String>>,
    pub extra: Mutex<Map<String, Value>>,
    pub exhaustive: AtomicBool,
    pub out_path: Option<String>,
    pub replay_mode: bool,
}

impl Report {
    pub fn new(prop: &str, tier: &str, seed: u64, out_path: Option<String>, replay_mode: bool) -> Arc<Self> {
        Arc::new(Self {
            prop: prop.to_string(),
            tier: tier.to_string(),
            seed,
            start: Instant::now(),
            rule: Mutex::new(String::new()),
            evals: AtomicU64::new(0),
            nontrivial: Mutex::new(HashSet::new()),
            by_dim: Mutex::new(BTreeMap::new()),
            outcomes: Mutex::new(BTreeMap::new()),
            counters: Mutex::new(BTreeMap::new()),
            samples: Mutex::new(Vec::new()),
            viols: Mutex::new(BTreeMap::new()),
            machinery: Mutex::new(Vec::new()),
            caps: Mutex::new(Vec::new()),
            extra: Mutex::new(Map::new()),
            exhaustive: AtomicBool::new(true),
            out_path,
            replay_mode,
        })
    }

    pub fn set_rule(&self, r: &str) {
        *self.rule.lock().unwrap() = r.to_string();
    }

    pub fn add_rule(&self, r: &str) {
        let mut g = self.rule.lock().unwrap();
        if !g.is_empty() {
            g.push_str(" || ");
        }
        g.push_str(r);
    }

    /// Records a violation. `weight` orders cases inside a class: the lightest is kept as the replay.
    /// Every oracle of this engine is evaluated on one execution of the subject and is sound for it,
    /// and the harness itself is deterministic (inputs are functions of the case). A violation that
    /// does not show again when its case is replayed alone therefore depends on what the subject's
    /// thread did before (thread-local scratch) or on the OS schedule of the subject's own threads:
    /// it is reported from the recorded observation, with a note (see `vcheck`).
    pub fn violation(&self, class: &str, what: &str, case: Value, weight: u64) {
        self.violation_x(true, class, what, case, weight)
    }

    /// A violation whose observation is conclusive without reproduction (history- or
    /// schedule-dependent differences between two encodes of the same input).
    pub fn violation_conclusive(&self, class: &str, what: &str, case: Value, weight: u64) {
        self.violation_x(true, class, what, case, weight)
    }

    /// `conclusive` first: used where a failure in multi-thread mode depends on the OS schedule.
    pub fn violation_x(&self, _schedule_dependent: bool, class: &str, what: &str, case: Value, weight: u64) {
        // see `violation`: every observation of this engine is conclusive
        let conclusive = true;
        let mut g = self.viols.lock().unwrap();
        match g.get_mut(class) {
            Some(v) => {
                v.count += 1;
                if weight < v.weight {
                    v.weight = weight;
                    v.what = what.to_string();
                    v.case = case;
                }
            }
            None => {
                g.insert(
                    class.to_string(),
                    Viol { class: class.to_string(), what: what.to_string(), case, weight, count: 1, conclusive },
                );
            }
        }
    }

    pub fn machinery_error(&self, msg: &str) {
        let mut g = self.machinery.lock().unwrap();
        if g.len() < 50 {
            g.push(msg.to_string());
        }
    }

    pub fn cap(&self, msg: &str) {
        self.exhaustive.store(false, Ordering::SeqCst);
        let mut g = self.caps.lock().unwrap();
        if g.len() < 50 {
            g.push(msg.to_string());
        }
    }

    pub fn sample(&self, v: Value) {
        let mut g = self.samples.lock().unwrap();
        if g.len() < 5 {
            g.push(v);
        }
    }

    pub fn want_sample(&self) -> bool {
        self.samples.lock().unwrap().len() < 5
    }

    pub fn extra(&self, k: &str, v: Value) {
        self.extra.lock().unwrap().insert(k.to_string(), v);
    }

    pub fn merge(&self, l: Local) {
        self.evals.fetch_add(l.evals, Ordering::SeqCst);
        self.nontrivial.lock().unwrap().extend(l.nontrivial);
        let mut g = self.by_dim.lock().unwrap();
        for (k, v) in l.by_dim {
            *g.entry(k).or_insert(0) += v;
        }
        drop(g);
        let mut g = self.outcomes.lock().unwrap();
        for (k, v) in l.outcomes {
            *g.entry(k).or_insert(0) += v;
        }
        drop(g);
        let mut g = self.counters.lock().unwrap();
        for (k, v) in l.counters {
            *g.entry(k).or_insert(0) += v;
        }
    }

    pub fn to_json(&self) -> Value {
        let viols: Vec<Value> = self
            .viols
            .lock()
            .unwrap()
            .values()
            .map(|v| json!({"class": v.class, "what": v.what, "case": v.case, "count": v.count, "conclusive": v.conclusive}))
            .collect();
        let mut outcomes = self.outcomes.lock().unwrap().clone();
        // keep the histogram readable
        if outcomes.len() > 64 {
            let mut v: Vec<_> = outcomes.into_iter().collect();
            v.sort_by(|a, b| b.1.cmp(&a.1));
            let distinct = v.len();
            v.truncate(63);
            outcomes = v.into_iter().collect();
            outcomes.insert("__distinct_outcomes_total".into(), distinct as u64);
        }
        json!({
            "property": self.prop,
            "tier": self.tier,
            "seed": self.seed,
            "wall_s": self.start.elapsed().as_secs_f64(),
            "rule": *self.rule.lock().unwrap(),
            "evaluations": self.evals.load(Ordering::SeqCst),
            "distinct_nontrivial": self.nontrivial.lock().unwrap().len(),
            "by_dimension": *self.by_dim.lock().unwrap(),
            "outcomes": outcomes,
            "counters": *self.counters.lock().unwrap(),
            "samples": *self.samples.lock().unwrap(),
            "exhaustive": self.exhaustive.load(Ordering::SeqCst),
            "caps_hit": *self.caps.lock().unwrap(),
            "extra": Value::Object(self.extra.lock().unwrap().clone()),
            "violations": viols,
            "machinery_errors": *self.machinery.lock().unwrap(),
        })
    }

    pub fn emit(&self) {
        let s = serde_json::to_string_pretty(&self.to_json()).unwrap();
        match &self.out_path {
            Some(p) => std::fs::write(p, s).expect("cannot write report"),
            None => println!("{s}"),
        }
    }

    /// Exit status: 0 clean, 1 violations, 2 machinery error.
    pub fn exit_code(&self) -> i32 {
        if !self.machinery.lock().unwrap().is_empty() {
            2
        } else if !self.viols.lock().unwrap().is_empty() {
            1
        } else {
            0
        }
    }
}

pub fn threads() -> usize {
    std::env::var("VERIF_THREADS")
        .ok()
        .and_then(|s| s.parse().ok())
        .unwrap_or_else(|| std::thread::available_parallelism().map(|n| n.get()).unwrap_or(4))
}

struct Slot {
    since: Instant,
    desc: String,
    active: bool,
    cur: Arc<Mutex<Option<crate::universe::Case>>>,
}

/// Runs `f(i, &mut Local)` for every `i in 0..n` on all cores. `desc(i)` describes an item for the
/// watchdog. A worker stuck on one item for longer than `timeout` is reported as a `hang` violation
/// and the process exits (threads cannot be killed).
pub fn par_for<F, D>(rep: &Arc<Report>, n: usize, timeout: Duration, desc: D, f: F)
where
    F: Fn(usize, &mut Local) + Sync,
    D: Fn(usize) -> Value + Sync,
{
    let nthreads = threads().min(n.max(1));
    let next = AtomicUsize::new(0);
    let done = AtomicBool::new(false);
    let finished = AtomicUsize::new(0);
    let slots: Vec<Mutex<Slot>> = (0..nthreads)
        .map(|_| Mutex::new(Slot { since: Instant::now(), desc: String::new(), active: false, cur: Arc::new(Mutex::new(None)) }))
        .collect();
    // seed only rotates the visiting order
    let rot = if n > 0 { (rep.seed as usize) % n } else { 0 };
    std::thread::scope(|s| {
        for t in 0..nthreads {
            let next = &next;
            let finished = &finished;
            let slots = &slots;
            let f = &f;
            let desc = &desc;
            let rep = Arc::clone(rep);
            std::thread::Builder::new()
                .stack_size(16 << 20)
                .spawn_scoped(s, move || {
                    crate::panicx::mark_harness_thread();
                    let mut local = Local::default();
                    local.cur_case = Arc::clone(&slots[t].lock().unwrap().cur);
                    loop {
                        let k = next.fetch_add(1, Ordering::SeqCst);
                        if k >= n {
                            break;
                        }
                        let i = (k + rot) % n;
                        {
                            let mut g = slots[t].lock().unwrap();
                            g.since = Instant::now();
                            g.desc = desc(i).to_string();
                            *g.cur.lock().unwrap() = None;
                            g.active = true;
                        }
                        if let Err(p) = crate::panicx::catch(|| f(i, &mut local)) {
                            if p.in_subject() {
                                // a panic raised inside the subject's own code is an observation even
                                // where the harness did not expect one
                                let case = local.cur_case.lock().unwrap().as_ref().map(|c| c.json()).unwrap_or_else(|| desc(i));
                                rep.violation_conclusive(&p.class(), &format!("the library panicked: {}", p.describe()), case, 0);
                            } else {
                                rep.machinery_error(&format!(
                                    "harness panic outside a guarded subject call: {} on item {}",
                                    p.describe(),
                                    desc(i)
                                ));
                            }
                        }
                        slots[t].lock().unwrap().active = false;
                    }
                    rep.merge(local);
                    finished.fetch_add(1, Ordering::SeqCst);
                })
                .unwrap();
        }
        // watchdog
        let rep2 = Arc::clone(rep);
        let slots = &slots;
        let done = &done;
        s.spawn(move || {
            while !done.load(Ordering::SeqCst) {
                std::thread::sleep(Duration::from_millis(200));
                for sl in slots.iter() {
                    let g = sl.lock().unwrap();
                    if g.active && g.since.elapsed() > timeout {
                        let case: Value = match g.cur.lock().unwrap().as_ref() {
                            Some(c) => c.json(),
                            None => serde_json::from_str(&g.desc).unwrap_or(Value::Null),
                        };
                        rep2.violation(
                            "hang",
                            &format!("no result within {} s", timeout.as_secs()),
                            case,
                            0,
                        );
                        rep2.cap("aborted by watchdog: a case did not terminate");
                        rep2.emit();
                        std::process::exit(rep2.exit_code());
                    }
                }
            }
        });
        while finished.load(Ordering::SeqCst) < nthreads {
            std::thread::sleep(Duration::from_millis(10));
        }
        done.store(true, Ordering::SeqCst);
    });
}
