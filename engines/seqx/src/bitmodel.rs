//! Ideal MSB-first bit string and user-defined sinks built on it.
//!
//! * `ModelSink`   - implements only the four *required* `BitSink` methods on a `Vec<bool>`, so that
//!   every default method of the trait is exercised when a component is serialised into it.
//! * `CountingSink` - counts bits only (all methods overridden), affordable for giant residuals.
//! * `FailingSink` - accepts `k` sink operations, then fails; records the bits accepted so far.
use flacenc::bitsink::{BitSink, Bits, SignedBits};
use std::convert::Infallible;
use std::fmt;

#[inline]
pub fn width_of<T>() -> usize {
    std::mem::size_of::<T>() * 8
}

/// Appends the `n` most significant bits of the `w`-bit value `v`.
#[inline]
pub fn push_msbs(bits: &mut Vec<bool>, v: u64, w: usize, n: usize) {
    for i in 0..n {
        bits.push((v >> (w - 1 - i)) & 1 == 1);
    }
}

pub fn bits_of_bytes(bytes: &[u8], nbits: usize) -> Vec<bool> {
    (0..nbits).map(|i| (bytes[i >> 3] >> (7 - (i & 7))) & 1 == 1).collect()
}

pub fn bytes_of_bits(bits: &[bool]) -> Vec<u8> {
    let mut out = vec![0u8; (bits.len() + 7) / 8];
    for (i, &b) in bits.iter().enumerate() {
        if b {
            out[i >> 3] |= 0x80 >> (i & 7);
        }
    }
    out
}

#[derive(Default, Clone)]
pub struct ModelSink {
    pub bits: Vec<bool>,
}

impl BitSink for ModelSink {
    type Error = Infallible;
    fn align_to_byte(&mut self) -> Result<usize, Infallible> {
        let pad = (8 - self.bits.len() % 8) % 8;
        self.bits.extend(std::iter::repeat(false).take(pad));
        Ok(pad)
    }
    fn write_lsbs<T: Bits>(&mut self, val: T, n: usize) -> Result<(), Infallible> {
        let v: u64 = val.into();
        for i in 0..n {
            self.bits.push((v >> (n - 1 - i)) & 1 == 1);
        }
        Ok(())
    }
    fn write_msbs<T: Bits>(&mut self, val: T, n: usize) -> Result<(), Infallible> {
        push_msbs(&mut self.bits, val.into(), width_of::<T>(), n);
        Ok(())
    }
    fn write<T: Bits>(&mut self, val: T) -> Result<(), Infallible> {
        let w = width_of::<T>();
        push_msbs(&mut self.bits, val.into(), w, w);
        Ok(())
    }
}

#[derive(Default, Clone)]
pub struct CountingSink {
    pub bits: u64,
}

impl BitSink for CountingSink {
    type Error = Infallible;
    fn align_to_byte(&mut self) -> Result<usize, Infallible> {
        let pad = (8 - self.bits % 8) % 8;
        self.bits += pad;
        Ok(pad as usize)
    }
    fn write_bytes_aligned(&mut self, bytes: &[u8]) -> Result<usize, Infallible> {
        let r = self.align_to_byte()?;
        self.bits += 8 * bytes.len() as u64;
        Ok(r)
    }
    fn write_lsbs<T: Bits>(&mut self, _val: T, n: usize) -> Result<(), Infallible> {
        self.bits += n as u64;
        Ok(())
    }
    fn write_msbs<T: Bits>(&mut self, _val: T, n: usize) -> Result<(), Infallible> {
        self.bits += n as u64;
        Ok(())
    }
    fn write<T: Bits>(&mut self, _val: T) -> Result<(), Infallible> {
        self.bits += width_of::<T>() as u64;
        Ok(())
    }
    fn write_twoc<T: SignedBits>(&mut self, _val: T, bits_per_sample: usize) -> Result<(), Infallible> {
        self.bits += bits_per_sample as u64;
        Ok(())
    }
    fn write_zeros(&mut self, n: usize) -> Result<(), Infallible> {
        self.bits += n as u64;
        Ok(())
    }
}

#[derive(Debug, Clone, PartialEq, Eq)]
pub struct SinkFailure(pub usize);
impl fmt::Display for SinkFailure {
    fn fmt(&self, f: &mut fmt::Formatter<'_>) -> fmt::Result {
        write!(f, "injected sink failure at operation {}", self.0)
    }
}
impl std::error::Error for SinkFailure {}

#[derive(Clone, Copy, Debug, PartialEq, Eq)]
pub enum Flavour {
    /// only the required methods are implemented; every one of them counts as an operation
    Minimal,
    /// all methods overridden; every call counts as one operation
    Full,
    /// all methods overridden; only `write_bytes_aligned` can fail (operations = its calls)
    BytesOnly,
    /// all methods overridden; operation k fails once, every later operation is accepted again (a
    /// transient fault, or a fixed-capacity buffer that refuses a large write and takes a smaller one)
    Transient,
    /// only the required methods are implemented and the fault is transient: the trait's provided
    /// methods (write_zeros, write_twoc, write_bytes_aligned) see a failure followed by success
    MinimalTransient,
}

/// A sink that fails on its `k`-th operation (0-based). `k = usize::MAX` never fails.
pub struct FailingSink {
    pub inner: ModelSink,
    pub ops: usize,
    pub k: usize,
    pub flavour: Flavour,
    pub failed: bool,
    pub calls_after_failure: usize,
    /// first call that broke the trait's contract (more bits than the operand has)
    pub contract_violation: Option<String>,
}

impl FailingSink {
    pub fn new(k: usize, flavour: Flavour) -> Self {
        Self { inner: ModelSink::default(), ops: 0, k, flavour, failed: false, calls_after_failure: 0, contract_violation: None }
    }
    #[inline]
    fn op(&mut self, counts: bool) -> Result<(), SinkFailure> {
        if self.failed {
            self.calls_after_failure += 1;
        }
        if counts {
            let transient = matches!(self.flavour, Flavour::Transient | Flavour::MinimalTransient);
            if self.ops == self.k && !(transient && self.failed) {
                self.failed = true;
                if transient {
                    // the failed operation is consumed; the sink works again afterwards
                    self.ops += 1;
                }
                return Err(SinkFailure(self.k));
            }
            self.ops += 1;
        }
        Ok(())
    }
}

/// Minimal flavour: defaults of the trait are used for everything else.
pub struct MinimalFailing(pub FailingSink);
impl BitSink for MinimalFailing {
    type Error = SinkFailure;
    fn align_to_byte(&mut self) -> Result<usize, SinkFailure> {
        self.0.op(true)?;
        Ok(self.0.inner.align_to_byte().unwrap())
    }
    fn write_lsbs<T: Bits>(&mut self, val: T, n: usize) -> Result<(), SinkFailure> {
        self.0.op(true)?;
        if n > width_of::<T>() {
            self.0.contract_violation.get_or_insert(format!("write_lsbs asked for {n} bits of a {}-bit operand", width_of::<T>()));
            return Ok(());
        }
        self.0.inner.write_lsbs(val, n).unwrap();
        Ok(())
    }
    fn write_msbs<T: Bits>(&mut self, val: T, n: usize) -> Result<(), SinkFailure> {
        self.0.op(true)?;
        if n > width_of::<T>() {
            self.0.contract_violation.get_or_insert(format!("write_msbs asked for {n} bits of a {}-bit operand", width_of::<T>()));
            return Ok(());
        }
        self.0.inner.write_msbs(val, n).unwrap();
        Ok(())
    }
    fn write<T: Bits>(&mut self, val: T) -> Result<(), SinkFailure> {
        self.0.op(true)?;
        self.0.inner.write(val).unwrap();
        Ok(())
    }
}

impl BitSink for FailingSink {
    type Error = SinkFailure;
    fn align_to_byte(&mut self) -> Result<usize, SinkFailure> {
        self.op(self.flavour != Flavour::BytesOnly)?;
        Ok(self.inner.align_to_byte().unwrap())
    }
    fn write_lsbs<T: Bits>(&mut self, val: T, n: usize) -> Result<(), SinkFailure> {
        self.op(self.flavour != Flavour::BytesOnly)?;
        self.inner.write_lsbs(val, n).unwrap();
        Ok(())
    }
    fn write_msbs<T: Bits>(&mut self, val: T, n: usize) -> Result<(), SinkFailure> {
        self.op(self.flavour != Flavour::BytesOnly)?;
        self.inner.write_msbs(val, n).unwrap();
        Ok(())
    }
    fn write<T: Bits>(&mut self, val: T) -> Result<(), SinkFailure> {
        self.op(self.flavour != Flavour::BytesOnly)?;
        self.inner.write(val).unwrap();
        Ok(())
    }
    fn write_bytes_aligned(&mut self, bytes: &[u8]) -> Result<usize, SinkFailure> {
        self.op(true)?;
        let r = self.inner.align_to_byte().unwrap();
        for b in bytes {
            self.inner.write(*b).unwrap();
        }
        Ok(r)
    }
    fn write_twoc<T: SignedBits>(&mut self, val: T, bits_per_sample: usize) -> Result<(), SinkFailure> {
        self.op(self.flavour != Flavour::BytesOnly)?;
        self.inner.write_twoc(val, bits_per_sample).unwrap();
        Ok(())
    }
    fn write_zeros(&mut self, n: usize) -> Result<(), SinkFailure> {
        self.op(self.flavour != Flavour::BytesOnly)?;
        self.inner.write_zeros(n).unwrap();
        Ok(())
    }
}
